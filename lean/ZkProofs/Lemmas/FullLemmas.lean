import ZkProofs.Lemmas.TreeDefs
/-!
# Helper lemmas for the flat-array tree (`FullMerkleTree`) refinement proof

Heap-layout arithmetic, the `recompute` loop, `update_nodes`, leaf writes, and the abstraction
`nodes[2^l - 1 + i]! = Ideal.node l i`.
-/
namespace Zk.Tree
namespace FullL

variable {α : Type} [Inhabited α]

/-! ## Arrays -/

theorem get_set (a : Array α) (i j : Nat) (v : α) :
    (a.setIfInBounds i v)[j]! = if i = j ∧ i < a.size then v else a[j]! := by
  simp only [Array.getElem!_eq_getD, Array.getD_eq_getD_getElem?, Array.getElem?_setIfInBounds]
  by_cases hij : i = j
  · subst hij
    by_cases hi : i < a.size <;> simp [hi]
  · simp [hij]

theorem get_set_nat (a : Array Nat) (i j : Nat) (v : Nat) :
    (a.setIfInBounds i v)[j]! = if i = j ∧ i < a.size then v else a[j]! := get_set a i j v

/-! ## Heap layout -/

def par (i : Nat) : Nat := (i + 1) / 2 - 1

def OnLevel (L i : Nat) : Prop := 2 ^ L - 1 ≤ i ∧ i ≤ 2 ^ (L + 1) - 2

theorem pow_succ' (L : Nat) : 2 ^ (L + 1) = 2 * 2 ^ L := by rw [Nat.pow_succ]; omega

theorem parent_eq (i : Nat) : Full.parent i = if i = 0 then none else some (par i) := rfl

theorem par_onLevel {L i : Nat} (h : OnLevel (L + 1) i) : OnLevel L (par i) := by
  unfold OnLevel par at *
  have h1 := pow_succ' L
  have h2 := pow_succ' (L + 1)
  have := Nat.two_pow_pos L
  omega

theorem par_mono {i j : Nat} (h : i ≤ j) : par i ≤ par j := by unfold par; omega

theorem onLevel_zero {i : Nat} (h : OnLevel 0 i) : i = 0 := by
  unfold OnLevel at h; simp at h; omega

theorem onLevel_succ_pos {L i : Nat} (h : OnLevel (L + 1) i) : i ≠ 0 := by
  unfold OnLevel at h
  have h1 := pow_succ' L
  have := Nat.two_pow_pos L
  omega

theorem level_of_onLevel {L i : Nat} (h : OnLevel L i) : Full.level i = L := by
  unfold Full.level
  rw [Nat.log2_eq_iff (by omega)]
  unfold OnLevel at h
  have h1 := pow_succ' L
  have := Nat.two_pow_pos L
  omega

/-! ## `recompute` -/

theorem recompute_spec (H : α → α → α) (a : Array α) (ps n : Nat)
    (hsz : ps + n ≤ a.size) (hch : ∀ p, ps ≤ p → p < ps + n → ps + n ≤ 2 * p + 1) :
    (Full.recompute H a ps n).size = a.size ∧
    (∀ j, (j < ps ∨ ps + n ≤ j) → (Full.recompute H a ps n)[j]! = a[j]!) ∧
    (∀ j, ps ≤ j → j < ps + n → (Full.recompute H a ps n)[j]! = H a[2 * j + 1]! a[2 * j + 2]!) := by
  induction n with
  | zero => simp [Full.recompute]; intro j h1 h2; omega
  | succ n ih =>
    have ih' := ih (by omega) (fun p h1 h2 => by have := hch p h1 (by omega); omega)
    obtain ⟨hs, hout, hin⟩ := ih'
    simp only [Full.recompute, Full.firstChild]
    refine ⟨by simp [hs], ?_, ?_⟩
    · intro j hj
      rw [get_set]
      have : ¬ (ps + n = j ∧ ps + n < (Full.recompute H a ps n).size) := by omega
      simp only [this, if_false]
      exact hout j (by omega)
    · intro j h1 h2
      rw [get_set]
      by_cases hj : ps + n = j
      · subst hj
        have hlt : ps + n < (Full.recompute H a ps n).size := by omega
        simp only [hlt, and_self, if_true]
        have c1 := hch (ps + n) (by omega) (by omega)
        rw [hout (2 * (ps + n) + 1) (by omega), hout (2 * (ps + n) + 1 + 1) (by omega)]
      · have : ¬ (ps + n = j ∧ ps + n < (Full.recompute H a ps n).size) := by omega
        simp only [this, if_false]
        exact hin j h1 (by omega)

/-! ## `update_nodes` -/

def Touched : Nat → Nat → Nat → Nat → Prop
  | 0, _, _, _ => False
  | L + 1, s, e, j => (par s ≤ j ∧ j ≤ par e) ∨ Touched L (par s) (par e) j

def Cons (H : α → α → α) (a : Array α) (j : Nat) : Prop := a[j]! = H a[2 * j + 1]! a[2 * j + 2]!

theorem touched_lt {L s e j : Nat} (hs : OnLevel L s) (he : OnLevel L e) (h : Touched L s e j) :
    j < 2 ^ L - 1 := by
  induction L generalizing s e with
  | zero => exact absurd h (by simp [Touched])
  | succ L ih =>
    simp only [Touched] at h
    have hps := par_onLevel hs; have hpe := par_onLevel he
    have h1 := pow_succ' L
    have := Nat.two_pow_pos L
    rcases h with ⟨_, h2⟩ | h
    · unfold OnLevel at hpe; omega
    · have := ih hps hpe h; omega

/-- a node with a touched (or freshly written) child is itself touched -/
theorem touched_of_child {L s e j c : Nat} (hs : OnLevel L s) (he : OnLevel L e)
    (hc : c = 2 * j + 1 ∨ c = 2 * j + 2)
    (h : (s ≤ c ∧ c ≤ e) ∨ Touched L s e c) : Touched L s e j := by
  induction L generalizing s e with
  | zero =>
    have := onLevel_zero hs; have := onLevel_zero he
    simp only [Touched, or_false] at h
    omega
  | succ L ih =>
    simp only [Touched]
    have hpc : par c = j := by unfold par; omega
    rcases h with h | h
    · left
      have h1 := par_mono h.1; have h2 := par_mono h.2
      omega
    · right
      simp only [Touched] at h
      exact ih (par_onLevel hs) (par_onLevel he) h

theorem updateNodesAux_spec (H : α → α → α) (L : Nat) : ∀ (f : Nat) (a : Array α) (s e : Nat),
    L + 1 ≤ f → OnLevel L s → OnLevel L e → s ≤ e → 2 ^ (L + 1) - 1 ≤ a.size →
    (Full.updateNodesAux H f a s e).size = a.size ∧
    (∀ j, ¬ Touched L s e j → (Full.updateNodesAux H f a s e)[j]! = a[j]!) ∧
    (∀ j, Touched L s e j → Cons H (Full.updateNodesAux H f a s e) j) := by
  induction L with
  | zero =>
    intro f a s e hf hs _ _ _
    have := onLevel_zero hs; subst this
    obtain ⟨f, rfl⟩ : ∃ f', f = f' + 1 := ⟨f - 1, by omega⟩
    simp [Full.updateNodesAux, Touched, parent_eq]
  | succ L ih =>
    intro f a s e hf hs he hse hsz
    obtain ⟨f, rfl⟩ : ∃ f', f = f' + 1 := ⟨f - 1, by omega⟩
    have hps := par_onLevel hs; have hpe := par_onLevel he
    have hpse := par_mono hse
    have h1 := pow_succ' L
    have h2 := pow_succ' (L + 1)
    have hpos := Nat.two_pow_pos L
    have hr := recompute_spec H a (par s) (par e + 1 - par s)
      (by unfold OnLevel at hpe; omega)
      (by intro p hp1 hp2; unfold OnLevel at hps hpe; omega)
    obtain ⟨rs, rout, rin⟩ := hr
    have ih' := ih f (Full.recompute H a (par s) (par e + 1 - par s)) (par s) (par e)
      (by omega) hps hpe hpse (by omega)
    obtain ⟨us, uout, uin⟩ := ih'
    have hs0 := onLevel_succ_pos hs
    have he0 := onLevel_succ_pos he
    simp only [Full.updateNodesAux, parent_eq, hs0, he0, if_false]
    refine ⟨by omega, ?_, ?_⟩
    · intro j hj
      simp only [Touched, not_or] at hj
      rw [uout j hj.2]
      exact rout j (by omega)
    · intro j hj
      simp only [Touched] at hj
      rcases hj with hj | hj
      · have hnt : ∀ k, 2 ^ L - 1 ≤ k → ¬ Touched L (par s) (par e) k := by
          intro k hk ht; have := touched_lt hps hpe ht; omega
        unfold Cons
        unfold OnLevel at hps hpe
        rw [uout j (hnt j (by omega)), uout (2 * j + 1) (hnt _ (by omega)),
          uout (2 * j + 2) (hnt _ (by omega))]
        rw [rin j (by omega) (by omega), rout (2 * j + 1) (by omega), rout (2 * j + 2) (by omega)]
      · exact uin j hj

/-! ## leaf writes and flags -/

omit [Inhabited α] in
theorem writeAt_size (a : Array α) (i : Nat) (vs : List α) : (Full.writeAt a i vs).size = a.size := by
  induction vs generalizing a i with
  | nil => rfl
  | cons v r ih => simp [Full.writeAt, ih]

theorem writeAt_out (a : Array α) (i : Nat) (vs : List α) (j : Nat) (h : j < i ∨ i + vs.length ≤ j) :
    (Full.writeAt a i vs)[j]! = a[j]! := by
  induction vs generalizing a i with
  | nil => rfl
  | cons v r ih =>
    simp only [Full.writeAt, List.length_cons] at *
    rw [ih _ _ (by omega), get_set]
    have : ¬ (i = j ∧ i < a.size) := by omega
    simp [this]

theorem writeAt_in (a : Array α) (i : Nat) (vs : List α) (k : Nat) (hsz : i + vs.length ≤ a.size)
    (hk : k < vs.length) : (Full.writeAt a i vs)[i + k]! = vs[k]! := by
  induction vs generalizing a i k with
  | nil => simp at hk
  | cons v r ih =>
    simp only [Full.writeAt, List.length_cons] at *
    cases k with
    | zero =>
      rw [writeAt_out _ _ _ _ (by omega), get_set]
      simp; omega
    | succ k =>
      have := ih (a.setIfInBounds i v) (i + 1) k (by simp; omega) (by omega)
      rw [show i + (k + 1) = i + 1 + k by omega, this]
      simp

theorem markRange_size (fl : Array Nat) (s n : Nat) : (Full.markRange fl s n).size = fl.size := by
  induction n with
  | zero => rfl
  | succ n ih => simp [Full.markRange, ih]

theorem markRange_get (fl : Array Nat) (s n j : Nat) :
    (Full.markRange fl s n)[j]! = if s ≤ j ∧ j < s + n ∧ j < fl.size then 1 else fl[j]! := by
  induction n with
  | zero => simp [Full.markRange]; intro h1 h2; omega
  | succ n ih =>
    simp only [Full.markRange]
    rw [get_set_nat, ih, markRange_size]
    by_cases h1 : s + n = j
    · subst h1
      by_cases h2 : s + n < fl.size
      · simp [h2]
      · have : ¬ (s + n < s + n) := by omega
        simp [h2]
    · simp only [h1, false_and, if_false]
      by_cases h3 : s ≤ j ∧ j < s + n ∧ j < fl.size
      · have : s ≤ j ∧ j < s + (n + 1) ∧ j < fl.size := by omega
        simp [h3, this]
      · have : ¬ (s ≤ j ∧ j < s + (n + 1) ∧ j < fl.size) := by omega
        simp [h3, this]

/-! ## writing a leaf range then `update_nodes` -/

theorem leaf_onLevel {d i : Nat} (h : i < 2 ^ d) : OnLevel d (2 ^ d - 1 + i) := by
  unfold OnLevel
  have h1 := pow_succ' d
  have := Nat.two_pow_pos d
  omega

theorem write_update (H : α → α → α) (d : Nat) (a0 : Array α) (start : Nat) (vs : List α)
    (hsz : a0.size = 2 ^ (d + 1) - 1)
    (hcons : ∀ j, j < 2 ^ d - 1 → a0[j]! = H a0[2 * j + 1]! a0[2 * j + 2]!)
    (hfit : start + vs.length ≤ 2 ^ d) (hne : vs.length ≠ 0) :
    let idx := 2 ^ d + start - 1
    let a2 := Full.updateNodesAux H (d + 1) (Full.writeAt a0 idx vs) idx (idx + (vs.length - 1))
    a2.size = a0.size ∧
    (∀ j, j < 2 ^ d - 1 → a2[j]! = H a2[2 * j + 1]! a2[2 * j + 2]!) ∧
    (∀ k, k < vs.length → a2[2 ^ d - 1 + (start + k)]! = vs[k]!) ∧
    (∀ i, i < 2 ^ d → (i < start ∨ start + vs.length ≤ i) → a2[2 ^ d - 1 + i]! = a0[2 ^ d - 1 + i]!) := by
  intro idx a2
  have h1 := pow_succ' d
  have hpos := Nat.two_pow_pos d
  have hidx : idx = 2 ^ d - 1 + start := by show 2 ^ d + start - 1 = _; omega
  have hs : OnLevel d idx := by rw [hidx]; exact leaf_onLevel (by omega)
  have he : OnLevel d (idx + (vs.length - 1)) := by
    rw [hidx, Nat.add_assoc]; exact leaf_onLevel (by omega)
  have hu := updateNodesAux_spec H d (d + 1) (Full.writeAt a0 idx vs) idx (idx + (vs.length - 1))
    (Nat.le_refl _) hs he (by omega) (by rw [writeAt_size]; omega)
  obtain ⟨us, uout, uin⟩ := hu
  have hleafnt : ∀ j, 2 ^ d - 1 ≤ j → ¬ Touched d idx (idx + (vs.length - 1)) j := by
    intro j hj ht; have := touched_lt hs he ht; omega
  refine ⟨by show (Full.updateNodesAux _ _ _ _ _).size = _; rw [us, writeAt_size], ?_, ?_, ?_⟩
  · intro j hj
    by_cases ht : Touched d idx (idx + (vs.length - 1)) j
    · exact uin j ht
    · have hc : ∀ c, c = 2 * j + 1 ∨ c = 2 * j + 2 → a2[c]! = a0[c]! := by
        intro c hc
        have hn : ¬ ((idx ≤ c ∧ c ≤ idx + (vs.length - 1)) ∨ Touched d idx (idx + (vs.length - 1)) c) :=
          fun h => ht (touched_of_child hs he hc h)
        simp only [not_or] at hn
        show (Full.updateNodesAux _ _ _ _ _)[c]! = _
        rw [uout c hn.2, writeAt_out _ _ _ _ (by omega)]
      show (Full.updateNodesAux _ _ _ _ _)[j]! = _
      rw [uout j ht, writeAt_out _ _ _ _ (by omega), hcons j hj]
      rw [← hc (2 * j + 1) (Or.inl rfl), ← hc (2 * j + 2) (Or.inr rfl)]
  · intro k hk
    show (Full.updateNodesAux _ _ _ _ _)[_]! = _
    rw [uout _ (hleafnt _ (by omega))]
    rw [show 2 ^ d - 1 + (start + k) = idx + k by omega]
    exact writeAt_in _ _ _ _ (by omega) hk
  · intro i hi hout
    show (Full.updateNodesAux _ _ _ _ _)[_]! = _
    rw [uout _ (hleafnt _ (by omega))]
    exact writeAt_out _ _ _ _ (by omega)

/-! ## the ideal side: `writeMany` -/

omit [Inhabited α] in
theorem writeMany_fields (s : Ideal α) (start : Nat) (vs : List α) :
    (s.writeMany start vs).depth = s.depth ∧ (s.writeMany start vs).next = s.next := by
  induction vs generalizing s start with
  | nil => exact ⟨rfl, rfl⟩
  | cons v r ih =>
    simp only [Ideal.writeMany]
    have := ih (s.write start v) (start + 1)
    simpa [Ideal.write] using this

omit [Inhabited α] in
theorem leaf_write (dflt : α) (s : Ideal α) (p : Nat) (v : α) (i : Nat) :
    (s.write p v).leaf dflt i = if i = p then v else s.leaf dflt i := by
  simp only [Ideal.leaf, Ideal.write, List.lookup_cons]
  by_cases h : i = p
  · simp [h]
  · have : (i == p) = false := by simp [h]
    simp [this, h]

omit [Inhabited α] in
theorem live_write (s : Ideal α) (p : Nat) (v : α) (i : Nat) :
    (s.write p v).live.lookup i = if i = p then some true else s.live.lookup i := by
  simp only [Ideal.write, List.lookup_cons]
  by_cases h : i = p
  · simp [h]
  · have : (i == p) = false := by simp [h]
    simp [this, h]

omit [Inhabited α] in
theorem writeMany_leaf_out (dflt : α) (s : Ideal α) (start : Nat) (vs : List α) (i : Nat)
    (h : i < start ∨ start + vs.length ≤ i) : (s.writeMany start vs).leaf dflt i = s.leaf dflt i := by
  induction vs generalizing s start with
  | nil => rfl
  | cons v r ih =>
    simp only [Ideal.writeMany, List.length_cons] at *
    rw [ih _ _ (by omega), leaf_write]
    have : i ≠ start := by omega
    simp [this]

theorem writeMany_leaf_in (dflt : α) (s : Ideal α) (start : Nat) (vs : List α) (k : Nat)
    (hk : k < vs.length) : (s.writeMany start vs).leaf dflt (start + k) = vs[k]! := by
  induction vs generalizing s start k with
  | nil => simp at hk
  | cons v r ih =>
    simp only [Ideal.writeMany, List.length_cons] at *
    cases k with
    | zero => rw [writeMany_leaf_out _ _ _ _ _ (by omega), leaf_write]; simp
    | succ k =>
      rw [show start + (k + 1) = start + 1 + k by omega, ih _ _ _ (by omega)]
      simp

omit [Inhabited α] in
theorem writeMany_live (s : Ideal α) (start : Nat) (vs : List α) (i : Nat) :
    (s.writeMany start vs).live.lookup i =
      if start ≤ i ∧ i < start + vs.length then some true else s.live.lookup i := by
  induction vs generalizing s start with
  | nil => simp [Ideal.writeMany]; intro h1 h2; omega
  | cons v r ih =>
    simp only [Ideal.writeMany, List.length_cons]
    rw [ih, live_write]
    by_cases h1 : i = start
    · subst h1; simp
    · by_cases h2 : start + 1 ≤ i ∧ i < start + 1 + r.length
      · have : start ≤ i ∧ i < start + (r.length + 1) := by omega
        simp [h2, this]
      · have : ¬ (start ≤ i ∧ i < start + (r.length + 1)) := by omega
        simp [h2, this, h1]

/-! ## abstraction: the flat array read as the ideal tree -/

theorem node_abs (H : α → α → α) (dflt : α) (t : Full α) (s : Ideal α) (h : Full.Rel H dflt t s) :
    ∀ k, k ≤ t.depth → ∀ i, i < 2 ^ (t.depth - k) →
      t.nodes[2 ^ (t.depth - k) - 1 + i]! = Ideal.nodeAux H (s.leaf dflt) k i := by
  intro k
  induction k with
  | zero => intro _ i hi; exact h.leaves i hi
  | succ k ih =>
    intro hk i hi
    have e : t.depth - k = (t.depth - (k + 1)) + 1 := by omega
    have h1 := pow_succ' (t.depth - (k + 1))
    rw [← e] at h1
    have hpos := Nat.two_pow_pos (t.depth - (k + 1))
    have hle : 2 ^ (t.depth - k) ≤ 2 ^ t.depth := Nat.pow_le_pow_right (by omega) (by omega)
    have c := h.inv.cons (2 ^ (t.depth - (k + 1)) - 1 + i) (by omega)
    rw [c]
    simp only [Ideal.nodeAux]
    rw [← ih (by omega) (2 * i) (by omega), ← ih (by omega) (2 * i + 1) (by omega)]
    rw [show 2 * (2 ^ (t.depth - (k + 1)) - 1 + i) + 1 = 2 ^ (t.depth - k) - 1 + 2 * i by omega,
      show 2 * (2 ^ (t.depth - (k + 1)) - 1 + i) + 2 = 2 ^ (t.depth - k) - 1 + (2 * i + 1) by omega]

theorem node_abs' (H : α → α → α) (dflt : α) (t : Full α) (s : Ideal α) (h : Full.Rel H dflt t s)
    (l i : Nat) (hl : l ≤ s.depth) (hi : i < 2 ^ l) :
    t.nodes[2 ^ l - 1 + i]! = s.node H dflt l i := by
  have hd := h.depth
  have := node_abs H dflt t s h (t.depth - l) (by omega) i (by rw [show t.depth - (t.depth - l) = l by omega]; exact hi)
  rw [show t.depth - (t.depth - l) = l by omega] at this
  rw [this, Ideal.node, hd]

/-! ## observables: `climb`, `proof`, xor -/

theorem xor_one (i : Nat) : i ^^^ 1 = if i % 2 = 0 then i + 1 else i - 1 := by
  apply Nat.eq_of_testBit_eq
  intro k
  rw [Nat.testBit_xor]
  cases k with
  | zero =>
    split
    · next h =>
      have a : ¬ i % 2 = 1 := by omega
      have b : (i + 1) % 2 = 1 := by omega
      simp [Nat.testBit_zero, a, b]
    · next h =>
      have a : i % 2 = 1 := by omega
      have b : ¬ (i - 1) % 2 = 1 := by omega
      simp [Nat.testBit_zero, a, b]
  | succ k =>
    simp only [Nat.testBit_succ]
    split
    · rw [show (i + 1) / 2 = i / 2 by omega]; simp
    · rw [show (i - 1) / 2 = i / 2 by omega]; simp

theorem climb_flat (k : Nat) : ∀ l i, k ≤ l → i < 2 ^ l →
    Full.climb k (2 ^ l - 1 + i) = 2 ^ (l - k) - 1 + i / 2 ^ k := by
  induction k with
  | zero => intro l i _ _; simp [Full.climb]
  | succ k ih =>
    intro l i hl hi
    obtain ⟨l, rfl⟩ : ∃ l', l = l' + 1 := ⟨l - 1, by omega⟩
    simp only [Full.climb]
    have h1 := pow_succ' l
    have := Nat.two_pow_pos l
    rw [show (2 ^ (l + 1) - 1 + i + 1) / 2 - 1 = 2 ^ l - 1 + i / 2 by omega]
    rw [ih l (i / 2) (by omega) (by omega), Nat.div_div_eq_div_mul,
      show l + 1 - (k + 1) = l - k by omega, pow_succ' k]

theorem proofAux_flat (H : α → α → α) (dflt : α) (t : Full α) (s : Ideal α) (h : Full.Rel H dflt t s) :
    ∀ l, l ≤ s.depth → ∀ i, i < 2 ^ l →
      Full.proofAux t.nodes (l + 1) (2 ^ l - 1 + i) = Ideal.proofAux H dflt s l l i := by
  intro l
  induction l with
  | zero =>
    intro _ i hi
    have : i = 0 := by simpa using hi
    subst this
    simp [Full.proofAux, Ideal.proofAux]
  | succ l ih =>
    intro hl i hi
    have h1 := pow_succ' l
    have hpos := Nat.two_pow_pos l
    have hj : 2 ^ (l + 1) - 1 + i ≠ 0 := by omega
    rw [Full.proofAux, Ideal.proofAux]
    simp only [hj, if_false, Nat.add_sub_cancel]
    rw [show (2 ^ (l + 1) - 1 + i + 1) / 2 - 1 = 2 ^ l - 1 + i / 2 by omega,
      ih (by omega) (i / 2) (by omega)]
    congr 1
    rw [xor_one]
    by_cases hp : i % 2 = 0
    · have : (2 ^ (l + 1) - 1 + i) % 2 = 1 := by omega
      simp only [this, hp, if_true]
      rw [show 2 ^ (l + 1) - 1 + i + 1 = 2 ^ (l + 1) - 1 + (i + 1) by omega,
        node_abs' H dflt t s h (l + 1) (i + 1) hl (by omega)]
    · have : ¬ (2 ^ (l + 1) - 1 + i) % 2 = 1 := by omega
      simp only [this, hp, if_false]
      rw [show 2 ^ (l + 1) - 1 + i - 1 = 2 ^ (l + 1) - 1 + (i - 1) by omega,
        node_abs' H dflt t s h (l + 1) (i - 1) hl (by omega)]
      congr 1; omega

/-! ## `new`: the level-by-level initial array -/

def lvls (f : Nat → α) (n : Nat) : List α :=
  ((List.range n).map (fun l => List.replicate (2 ^ l) (f l))).flatten

omit [Inhabited α] in
theorem lvls_succ (f : Nat → α) (n : Nat) : lvls f (n + 1) = lvls f n ++ List.replicate (2 ^ n) (f n) := by
  simp [lvls, List.range_succ]

omit [Inhabited α] in
theorem lvls_length (f : Nat → α) (n : Nat) : (lvls f n).length = 2 ^ n - 1 := by
  induction n with
  | zero => simp [lvls]
  | succ n ih =>
    rw [lvls_succ, List.length_append, ih, List.length_replicate]
    have := pow_succ' n
    have := Nat.two_pow_pos n
    omega

omit [Inhabited α] in
theorem lvls_get (f : Nat → α) (n l i : Nat) (hl : l < n) (hi : i < 2 ^ l) :
    (lvls f n)[2 ^ l - 1 + i]? = some (f l) := by
  induction n with
  | zero => omega
  | succ n ih =>
    rw [lvls_succ, List.getElem?_append, lvls_length]
    have h1 := pow_succ' l
    have hpos := Nat.two_pow_pos l
    by_cases hln : l < n
    · have : 2 ^ (l + 1) ≤ 2 ^ n := Nat.pow_le_pow_right (by omega) (by omega)
      have : 2 ^ l - 1 + i < 2 ^ n - 1 := by omega
      simp only [this, if_true]
      exact ih hln
    · have : l = n := by omega
      subst this
      have : ¬ (2 ^ l - 1 + i < 2 ^ l - 1) := by omega
      simp only [this, if_false]
      rw [show 2 ^ l - 1 + i - (2 ^ l - 1) = i by omega, List.getElem?_replicate]
      simp [hi]

theorem flat_decomp (d j : Nat) (hj : j < 2 ^ d - 1) : ∃ l i, l < d ∧ i < 2 ^ l ∧ j = 2 ^ l - 1 + i := by
  refine ⟨(j + 1).log2, j + 1 - 2 ^ (j + 1).log2, ?_, ?_, ?_⟩
  · rw [Nat.log2_lt (by omega)]; omega
  · have := @Nat.lt_log2_self (j + 1)
    have := pow_succ' (j + 1).log2
    omega
  · have := @Nat.log2_self_le (j + 1) (by omega)
    have := Nat.two_pow_pos (j + 1).log2
    omega

theorem new_get (H : α → α → α) (dflt : α) (d l i : Nat) (hl : l ≤ d) (hi : i < 2 ^ l) :
    (Full.new H dflt d).nodes[2 ^ l - 1 + i]! = Full.dfltAt H dflt (d - l) := by
  have := lvls_get (fun l => Full.dfltAt H dflt (d - l)) (d + 1) l i (by omega) hi
  simp only [Full.new, Array.getElem!_eq_getD, Array.getD_eq_getD_getElem?, List.getElem?_toArray]
  unfold lvls at this
  rw [this]; rfl

end FullL
end Zk.Tree
