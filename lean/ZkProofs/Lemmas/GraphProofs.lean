import ZkProofs.Lemmas.GraphLemmas
import ZkProofs.Lemmas.BundledFacts
/-!
# Proofs of the statements of `GraphDefs.lean` (C20, C05)
-/
namespace Zk.Graph
open Zk.Graph.Storage

theorem evalAll_denote : EvalAllDenoteStmt := by
  intro nodes inputs values h
  exact evalAll_inv nodes inputs nodes [] #[] values rfl rfl (fun i hi => by simp at hi) h

theorem evaluate_denote : EvaluateDenoteStmt := by
  intro nodes inputs outs vs h
  unfold evaluate at h
  cases hv : evalAll inputs nodes #[] with
  | err => simp [hv] at h
  | panic => simp [hv] at h
  | ok values =>
    obtain ⟨hsz, hd⟩ := evalAll_denote nodes inputs values hv
    simp only [hv] at h
    split at h
    · rename_i hall
      cases h
      refine ⟨by simp, ?_⟩
      intro k hk
      have hmem : outs[k]! ∈ outs := by
        simp [hk]
      have hlt : outs[k]! < values.size := by
        have := List.all_eq_true.mp hall _ hmem
        simpa using this
      rw [hd _ (hsz ▸ hlt)]
      simp [hk]
    · cases h

theorem evaluate_total : EvaluateTotalStmt := by
  intro nodes inputs outs hwf hin houts
  obtain ⟨values, e1, e2, e3⟩ := evalAll_total inputs hin nodes #[] hwf (fun i hi => by simp at hi)
  simp only [Array.size_empty, Nat.zero_add] at e2
  have hall : (outs.all fun o => decide (o < values.size)) = true := by
    rw [List.all_eq_true]; intro o ho; simpa [e2] using houts o ho
  refine ⟨outs.map (fun o => values[o]!), ?_, by simp, ?_⟩
  · simp only [evaluate, e1, hall, if_true]
  · intro v hv
    obtain ⟨o, ho, rfl⟩ := List.mem_map.mp hv
    exact e3 o (e2 ▸ houts o ho)

theorem populate_perm : PopulatePermStmt := by
  intro info ins ins' buf hlay hfit hp
  exact ⟨populate_perm_aux info ins' ins hp buf hlay hfit, populate_ok info ins buf hlay hfit⟩

theorem populate_places : PopulatePlacesStmt := by
  intro info ins buf b hlay hfit h
  exact ⟨populate_place info ins buf b hlay hfit h,
    fun p _ hp => populate_frame info ins buf b hlay hfit h p hp⟩

theorem varint_roundtrip : VarintStmt := by
  intro n rest h
  exact encVarint_spec n rest h

theorem writeback_reader : WriteBackStmt := by
  intro bytes k n hk _
  obtain ⟨h1, h2⟩ := read_spec ⟨bytes, []⟩ 10
  rcases hrd : WBR.read ⟨bytes, []⟩ 10 with ⟨look, r1⟩
  rw [hrd] at h1 h2
  simp only [stream, List.reverse_nil, List.nil_append] at h1 h2
  simp only [hrd]
  rw [(read_spec _ n).1, write_spec]
  show List.take n (List.drop k look ++ stream r1) = _
  rw [h1, show stream r1 = List.drop 10 bytes from h2, take_drop_split _ _ hk]

theorem framing_roundtrip : FramingStmt := by
  intro msgs md hn hm hmd
  exact unframe_frame msgs md hn hm hmd

theorem node_conv : NodeConvStmt := by
  intro n hs
  cases n with
  | input i =>
    simp only [Serializable] at hs
    exact ⟨_, rfl, by simp only [ofProto, Nat.mod_eq_of_lt hs]⟩
  | constant c => exact absurd hs (by simp [Serializable])
  | montConstant c =>
    simp only [Serializable] at hs
    refine ⟨_, rfl, ?_⟩
    simp only [ofProto, leNat_minLE 32 c (Nat.lt_trans hs Zk.P_lt), Nat.mod_eq_of_lt hs]
  | uno op a =>
    simp only [Serializable] at hs
    refine ⟨_, rfl, ?_⟩
    cases op <;> simp [ofProto, Nat.mod_eq_of_lt hs]
  | duo op a b =>
    simp only [Serializable] at hs
    refine ⟨_, rfl, ?_⟩
    simp only [ofProto, opOfCode_opCode, Nat.mod_eq_of_lt hs.1, Nat.mod_eq_of_lt hs.2]
  | tres op a b c =>
    simp only [Serializable] at hs
    refine ⟨_, rfl, ?_⟩
    cases op
    simp only [ofProto, if_true, Nat.mod_eq_of_lt hs.1, Nat.mod_eq_of_lt hs.2.1, Nat.mod_eq_of_lt hs.2.2]

/-! ## the bundled graph -/

open Zk.Generated.Bundled

theorem bundled_wf : BundledWfStmt := by
  have hget : ∀ i, nodes[i]? = getChunks? chunks i := by
    intro i; rw [nodes_eq_chunks]; exact getElem?_flatten_chunks chunks i
  refine ⟨?_, bundled_inputsSize, ?_, bundled_signals.1, bundled_signals.2, bundled_info, ?_, ?_, ?_, ?_,
    bundled_consumed⟩
  · show wfAux 46 nodes 0 = true
    rw [nodes_eq_chunks, wfAux_flatten]; exact chunks_wf
  · rw [nodes_eq_chunks, length_flatten_chunks]; exact chunks_len
  · rw [hget]; exact bundled_pos0
  · rw [hget]; exact bundled_pos4
  · rw [hget]; exact bundled_pos5
  · intro k hk
    simp only [List.mem_cons, List.not_mem_nil, or_false] at hk
    rcases hk with rfl | rfl | rfl <;> rw [hget]
    · exact isAdd_spec _ bundled_pos123.1
    · exact isAdd_spec _ bundled_pos123.2.1
    · exact isAdd_spec _ bundled_pos123.2.2

abbrev info7 : List (String × Nat × Nat) :=
    [("externalNullifier", 2, 1), ("identityPathIndex", 26, 20), ("identitySecret", 3, 1), ("messageId", 5, 1),
     ("pathElements", 6, 20), ("userMessageLimit", 4, 1), ("x", 1, 1)]

theorem layout7 : LayoutOk info7 46 := by
  unfold LayoutOk; decide

theorem names_nodup : ["externalNullifier", "identityPathIndex", "identitySecret", "messageId", "pathElements", "userMessageLimit", "x"].Nodup := by decide

theorem fit7 (ins : List (String × List Nat)) (h : Assignment ins) : InputsFit info7 ins := by
  obtain ⟨hp, h20, h1, _⟩ := h
  refine ⟨hp.nodup_iff.mpr names_nodup, ?_⟩
  intro e he
  have hmem : e.1 ∈ ["externalNullifier", "identityPathIndex", "identitySecret", "messageId", "pathElements", "userMessageLimit", "x"] :=
    hp.mem_iff.mp (List.mem_map_of_mem he)
  have h20' := h20 e he
  have h1' := h1 e he
  simp only [List.mem_cons, List.not_mem_nil, or_false] at hmem
  rcases hmem with h | h | h | h | h | h | h <;> rw [h] at h20' h1' ⊢
  · exact ⟨2, 1, by decide, (h1' (by decide)).symm⟩
  · exact ⟨26, 20, by decide, (h20' (by decide)).symm⟩
  · exact ⟨3, 1, by decide, (h1' (by decide)).symm⟩
  · exact ⟨5, 1, by decide, (h1' (by decide)).symm⟩
  · exact ⟨6, 20, by decide, (h20' (by decide)).symm⟩
  · exact ⟨4, 1, by decide, (h1' (by decide)).symm⟩
  · exact ⟨1, 1, by decide, (h1' (by decide)).symm⟩

theorem buffer_size (n : Nat) : (getInputsBuffer n).size = n := by
  simp [getInputsBuffer]

theorem buffer_lt (n p : Nat) : (getInputsBuffer n)[p]! < P := by
  unfold getInputsBuffer
  rw [get!_set]
  split
  · decide
  · have : (Array.replicate n 0)[p]! = 0 := by
      simp only [Array.getElem!_eq_getD, Array.getD_eq_getD_getElem?, Array.getElem?_replicate]
      split <;> rfl
    rw [this]; exact P_pos

theorem bundled_total : BundledTotalStmt := by
  intro ins ins' hA hperm
  obtain ⟨hwf, hsz, hlen, hslen, hsall, hinfo, _⟩ := bundled_wf
  have hlay : LayoutOk inputsInfo (getInputsBuffer 46).size := by
    rw [buffer_size, hinfo]; exact layout7
  have hfit : InputsFit inputsInfo ins := by rw [hinfo]; exact fit7 ins hA
  obtain ⟨heq, b, hb, hbs⟩ := populate_perm inputsInfo ins ins' (getInputsBuffer 46) hlay hfit hperm
  obtain ⟨hplace, hframe⟩ := populate_places inputsInfo ins (getInputsBuffer 46) b hlay hfit hb
  rw [buffer_size] at hbs
  have hcanon : ∀ i, i < b.size → b[i]! < P := by
    intro p hp
    by_cases hex : ∃ e ∈ ins, ∃ off len, inputsInfo.lookup e.1 = some (off, len) ∧ off ≤ p ∧ p < off + len
    · obtain ⟨e, he, off, len, hl, h1, h2⟩ := hex
      obtain ⟨off', len', hl', hlen'⟩ := hfit.2 e he
      rw [hl] at hl'
      cases hl'
      have := hplace e he off len hl (p - off) (by omega)
      rw [show off + (p - off) = p by omega] at this
      rw [this]
      have hj : p - off < e.2.length := by omega
      rw [getElem!_pos e.2 (p - off) hj]
      exact hA.2.2.2 e he _ (List.getElem_mem hj)
    · rw [hframe p (by rw [buffer_size]; omega) ?_]
      · exact buffer_lt 46 p
      · intro e he off len hl
        by_cases h : p < off ∨ off + len ≤ p
        · exact h
        · exact absurd ⟨e, he, off, len, hl, by omega, by omega⟩ hex
  obtain ⟨vs, hv, hvl, hvc⟩ := evaluate_total nodes b signals (hbs ▸ hwf) hcanon (by
    intro o ho
    have := List.all_eq_true.mp hsall o ho
    rw [hlen]; simpa using this)
  refine ⟨vs, ?_, by rw [hvl, hslen], hvc, ?_⟩
  · simp only [calcWitness, hsz, hb]; exact hv
  · simp only [calcWitness, hsz, heq, hb]; exact hv

end Zk.Graph
