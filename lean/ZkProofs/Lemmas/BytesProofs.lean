import ZkProofs.Lemmas.ProtoDefs
import ZkProofs.Lemmas.BytesLemmas
/-!
# Proofs of the codec / untrusted-input / acceptance statements (C10, C13, C02)
-/
namespace Zk.Proto
open Zk Zk.Codec Zk.Protocol Zk.Public

/-! ## field elements -/

theorem frToBytesLe_length (v : Nat) : (frToBytesLe v).length = 32 := natLE_length _ _

theorem leNat_frToBytesLe (v : Nat) (h : v < P) : leNat (frToBytesLe v) % P = v := by
  unfold frToBytesLe FR_BYTES
  rw [leNat_natLE _ _ (Nat.lt_trans h P_lt), Nat.mod_eq_of_lt h]

theorem leNat_frToBytesLe' (v : Nat) (h : v < P) : leNat (frToBytesLe v) = v := by
  unfold frToBytesLe FR_BYTES
  rw [leNat_natLE _ _ (Nat.lt_trans h P_lt)]

theorem fr_roundtrip : FrRoundtripStmt := by
  intro v hv
  refine ⟨frToBytesLe_length v, ?_⟩
  unfold bytesLeToFr
  rw [if_neg (by rw [frToBytesLe_length]; decide),
    List.take_of_length_le (by rw [frToBytesLe_length]; decide), leNat_frToBytesLe v hv]
  rfl

theorem fr_decode_canonical : FrDecodeCanonicalStmt := by
  intro bs v n h
  unfold bytesLeToFr at h
  split at h
  · cases h
  · injection h with h
    injection h with h1 h2
    subst h1 h2
    exact ⟨Nat.mod_lt _ P_pos, rfl⟩

/-! ## vectors -/

theorem normalizeUsize_length (n : Nat) : (normalizeUsize n).length = 8 := natLE_length _ _

theorem leNat_normalizeUsize (n : Nat) (h : n < 2 ^ 64) : leNat (normalizeUsize n) = n :=
  leNat_natLE _ _ (by rw [two64]; exact h)

theorem frs_flatten_length (l : List Nat) : (l.map frToBytesLe).flatten.length = 32 * l.length :=
  flatten_const_length _ _ _ frToBytesLe_length

/-- the elements the loop of `bytes_le_to_vec_fr` reads -/
def frsAt (input : List UInt8) (i n : Nat) : List Nat :=
  (List.range' i n).map (fun j => leNat ((input.drop (8 + 32 * j)).take 32) % P)

theorem frsAt_length (input : List UInt8) (i n : Nat) : (frsAt input i n).length = n := by
  simp [frsAt]

theorem readFrs_ok (input : List UInt8) (n i : Nat) (acc : List Nat)
    (h : 8 + 32 * (i + n) ≤ input.length) :
    readFrs input n i acc = .ok (acc.reverse ++ frsAt input i n) := by
  induction n generalizing i acc with
  | zero => simp [readFrs, frsAt]
  | succ n ih =>
    unfold readFrs
    rw [if_neg (by omega), ih (i + 1) _ (by omega)]
    simp [frsAt, List.range'_succ]

theorem bytesLeToVecFr_eq (input : List UInt8) :
    bytesLeToVecFr input =
      if input.length < 8 then .err else
      if leNat (input.take 8) > (input.length - 8) / 32 then .err else
      .ok (frsAt input 0 (leNat (input.take 8)), 8 + 32 * leNat (input.take 8)) := by
  unfold bytesLeToVecFr
  split
  · rfl
  · simp only []
    split
    · rfl
    · rw [readFrs_ok _ _ _ _ (by omega)]
      simp

theorem frsAt_flatten (pre : List UInt8) (l : List Nat) (i : Nat) (hl : ∀ e ∈ l, e < P)
    (hp : pre.length = 8 + 32 * i) :
    frsAt (pre ++ (l.map frToBytesLe).flatten) i l.length = l := by
  induction l generalizing pre i with
  | nil => simp [frsAt]
  | cons e r ih =>
    have h1 := ih (pre ++ frToBytesLe e) (i + 1) (fun x hx => hl x (List.mem_cons_of_mem _ hx))
      (by rw [List.length_append, frToBytesLe_length, hp]; omega)
    simp only [frsAt, List.length_cons, List.range'_succ, List.map_cons, List.flatten_cons] at h1 ⊢
    rw [List.append_assoc] at h1
    rw [h1, ← List.append_assoc, slice_mid _ _ _ _ _ hp (frToBytesLe_length e),
      leNat_frToBytesLe e (hl e List.mem_cons_self)]

theorem vecFr_roundtrip : VecFrRoundtripStmt := by
  intro l hl hlen
  have hL : (vecFrToBytesLe l).length = 8 + 32 * l.length := by
    rw [vecFrToBytesLe, List.length_append, normalizeUsize_length, frs_flatten_length]
  refine ⟨hL, ?_⟩
  have ht : (vecFrToBytesLe l).take 8 = normalizeUsize l.length := by
    unfold vecFrToBytesLe; exact List.take_left' (normalizeUsize_length _)
  rw [bytesLeToVecFr_eq, ht, leNat_normalizeUsize _ hlen, hL, if_neg (by omega), if_neg (by omega)]
  unfold vecFrToBytesLe
  rw [frsAt_flatten _ _ 0 hl (by rw [normalizeUsize_length])]

theorem vecU8_roundtrip : VecU8RoundtripStmt := by
  intro l hlen
  have hL : (vecU8ToBytesLe l).length = 8 + l.length := by
    simp [vecU8ToBytesLe, normalizeUsize_length]
  have ht : (vecU8ToBytesLe l).take 8 = normalizeUsize l.length := by
    unfold vecU8ToBytesLe; exact List.take_left' (normalizeUsize_length _)
  unfold bytesLeToVecU8
  simp only [ht, leNat_normalizeUsize _ hlen, hL]
  rw [if_neg (by omega), if_neg (by omega)]
  unfold vecU8ToBytesLe
  rw [List.drop_left' (normalizeUsize_length _), List.take_of_length_le (Nat.le_refl _)]

theorem chunks8_flatten (l : List Nat) (f : Nat) (hf : l.length < f) :
    chunks8 f (l.map (natLE 8)).flatten = l.map (natLE 8) := by
  induction l generalizing f with
  | nil => cases f <;> simp [chunks8]
  | cons e r ih =>
    cases f with
    | zero => simp at hf
    | succ f =>
      have hne : (natLE 8 e ++ (r.map (natLE 8)).flatten).isEmpty = false := by
        simp [natLE]
      simp only [List.map_cons, List.flatten_cons, chunks8, hne]
      rw [List.take_left' (natLE_length _ _), List.drop_left' (natLE_length _ _),
        ih f (by simpa using hf)]
      simp

theorem vecUsize_roundtrip : VecUsizeRoundtripStmt := by
  intro l hl hlen
  unfold bytesLeToVecUsize readU64 serializeVecUsize
  have hL : (natLE 8 l.length ++ (l.map (natLE 8)).flatten).length = 8 + 8 * l.length := by
    rw [List.length_append, natLE_length, flatten_const_length _ 8 _ (natLE_length 8)]
  rw [if_neg (by omega)]
  simp only [List.take_left' (natLE_length 8 l.length),
    leNat_natLE _ _ (by rw [two64]; exact hlen)]
  split
  · next h => rw [List.eq_nil_of_length_eq_zero h]
  · rw [List.drop_left' (natLE_length _ _), chunks8_flatten _ _ (by omega)]
    rw [if_neg]
    · congr 1
      rw [List.map_map]
      conv => rhs; rw [← List.map_id l]
      apply List.map_congr_left
      intro a ha
      simp [leNat_natLE _ _ (by rw [two64]; exact hl a ha)]
    · simp [natLE_length]

/-! ## witness -/

/-- declared number of path elements / of direction bytes of a witness encoding -/
def cnt1 (bs : List UInt8) : Nat := leNat ((bs.drop 96).take 8)
def cnt2 (bs : List UInt8) : Nat := leNat ((bs.drop (96 + (8 + 32 * cnt1 bs))).take 8)

theorem deserializeWitness_eq (bs : List UInt8) :
    deserializeWitness bs =
      if bs.length < 96 then .err else
      if fr32 bs 64 ≥ fr32 bs 32 then .err else
      if bs.length - 96 < 8 then .err else
      if cnt1 bs > (bs.length - 96 - 8) / 32 then .err else
      if bs.length - (96 + (8 + 32 * cnt1 bs)) < 8 then .err else
      if cnt2 bs > bs.length - (96 + (8 + 32 * cnt1 bs)) - 8 then .err else
      if bs.length - (96 + (8 + 32 * cnt1 bs) + (8 + cnt2 bs)) ≠ 64 then .err else
      .ok ({ identitySecret := fr32 bs 0, userMessageLimit := fr32 bs 32, messageId := fr32 bs 64,
             pathElements := frsAt (bs.drop 96) 0 (cnt1 bs),
             identityPathIndex := (bs.drop (96 + (8 + 32 * cnt1 bs) + 8)).take (cnt2 bs),
             x := fr32 bs (96 + (8 + 32 * cnt1 bs) + (8 + cnt2 bs)),
             externalNullifier := fr32 bs (96 + (8 + 32 * cnt1 bs) + (8 + cnt2 bs) + 32) },
           96 + (8 + 32 * cnt1 bs) + (8 + cnt2 bs) + 64) := by
  unfold deserializeWitness
  by_cases h0 : bs.length < 96
  · rw [if_pos h0, if_pos h0]
  rw [if_neg h0, if_neg h0]
  simp only [messageIdRangeCheck]
  by_cases h1 : fr32 bs 64 ≥ fr32 bs 32
  · rw [if_pos h1, if_pos h1]
  rw [if_neg h1, if_neg h1]
  simp only [bytesLeToVecFr_eq, List.length_drop]
  have e1 : leNat (List.take 8 (List.drop 96 bs)) = cnt1 bs := rfl
  simp only [e1]
  by_cases h2 : bs.length - 96 < 8
  · rw [if_pos h2, if_pos h2]
  rw [if_neg h2, if_neg h2]
  by_cases h3 : cnt1 bs > (bs.length - 96 - 8) / 32
  · rw [if_pos h3, if_pos h3]
  rw [if_neg h3, if_neg h3]
  simp only [bytesLeToVecU8, List.length_drop]
  have e2 : leNat (List.take 8 (List.drop (96 + (8 + 32 * cnt1 bs)) bs)) = cnt2 bs := rfl
  simp only [e2]
  by_cases h4 : bs.length - (96 + (8 + 32 * cnt1 bs)) < 8
  · rw [if_pos h4, if_pos h4]
  rw [if_neg h4, if_neg h4]
  by_cases h5 : cnt2 bs > bs.length - (96 + (8 + 32 * cnt1 bs)) - 8
  · rw [if_pos h5, if_pos h5]
  rw [if_neg h5, if_neg h5]
  simp only [List.drop_drop]

theorem dw_ok (bs : List UInt8) (w : Witness) (n : Nat) (h : deserializeWitness bs = .ok (w, n)) :
    bs.length = 96 + (8 + 32 * cnt1 bs) + (8 + cnt2 bs) + 64 ∧ n = bs.length ∧
    fr32 bs 64 < fr32 bs 32 ∧
    w = { identitySecret := fr32 bs 0, userMessageLimit := fr32 bs 32, messageId := fr32 bs 64,
          pathElements := frsAt (bs.drop 96) 0 (cnt1 bs),
          identityPathIndex := (bs.drop (96 + (8 + 32 * cnt1 bs) + 8)).take (cnt2 bs),
          x := fr32 bs (96 + (8 + 32 * cnt1 bs) + (8 + cnt2 bs)),
          externalNullifier := fr32 bs (96 + (8 + 32 * cnt1 bs) + (8 + cnt2 bs) + 32) } := by
  rw [deserializeWitness_eq] at h
  split at h; · cases h
  split at h; · cases h
  split at h; · cases h
  split at h; · cases h
  split at h; · cases h
  split at h; · cases h
  split at h; · cases h
  injection h with h
  injection h with hw hn
  refine ⟨by omega, by omega, by omega, hw.symm⟩

theorem witness_decode_total : WitnessDecodeTotalStmt := by
  intro bs h
  rw [deserializeWitness_eq] at h
  repeat' split at h
  all_goals cases h

theorem dw_err_or_ok (bs : List UInt8) :
    deserializeWitness bs = .err ∨ ∃ w n, deserializeWitness bs = .ok (w, n) := by
  cases h : deserializeWitness bs with
  | ok a => exact Or.inr ⟨a.1, a.2, rfl⟩
  | err => exact Or.inl rfl
  | panic => exact absurd h (witness_decode_total bs)

theorem witness_exact_length : WitnessExactLengthStmt := by
  intro bs w n h
  obtain ⟨hl, hn, hm, hw⟩ := dw_ok bs w n h
  refine ⟨hn, ?_, ?_⟩
  · rw [hw]; simp only [frsAt_length, List.length_take, List.length_drop]
    omega
  · rw [hw]; exact hm

theorem witness_no_slack : WitnessNoSlackStmt := by
  intro bs w n h
  obtain ⟨hl, -, -, -⟩ := dw_ok bs w n h
  constructor
  · intro extra hne
    rcases dw_err_or_ok (bs ++ extra) with h' | ⟨w', n', h'⟩
    · exact h'
    · exfalso
      obtain ⟨hl', -, -, -⟩ := dw_ok _ _ _ h'
      have c1 : cnt1 (bs ++ extra) = cnt1 bs := by
        unfold cnt1; rw [slice_append _ _ _ _ (by omega)]
      have c2 : cnt2 (bs ++ extra) = cnt2 bs := by
        unfold cnt2; rw [c1, slice_append _ _ _ _ (by omega)]
      rw [c1, c2, List.length_append] at hl'
      have : extra.length = 0 := by omega
      exact hne (List.eq_nil_of_length_eq_zero this)
  · intro k hk
    rcases dw_err_or_ok (bs.take k) with h' | ⟨w', n', h'⟩
    · exact h'
    · exfalso
      obtain ⟨hl', -, -, -⟩ := dw_ok _ _ _ h'
      have hk' : (bs.take k).length = k := by rw [List.length_take]; omega
      rw [hk'] at hl'
      have c1 : cnt1 (bs.take k) = cnt1 bs := by
        unfold cnt1; rw [slice_take _ _ _ _ (by omega)]
      rw [c1] at hl'
      have c2 : cnt2 (bs.take k) = cnt2 bs := by
        unfold cnt2; rw [c1, slice_take _ _ _ _ (by omega)]
      rw [c2] at hl'
      omega

theorem slice_eq {α : Type} (l pre mid post : List α) (off n : Nat) (h : l = pre ++ mid ++ post)
    (h1 : pre.length = off) (h2 : mid.length = n) : (l.drop off).take n = mid := by
  rw [h]; exact slice_mid _ _ _ _ _ h1 h2

theorem frsAt_append (l e : List UInt8) (i n : Nat) (h : 8 + 32 * (i + n) ≤ l.length) :
    frsAt (l ++ e) i n = frsAt l i n := by
  unfold frsAt
  apply List.map_congr_left
  intro j hj
  rw [List.mem_range'_1] at hj
  rw [slice_append _ _ _ _ (by omega)]

theorem witness_roundtrip : WitnessRoundtripStmt := by
  intro w ⟨hs, hlim, hm, hx, he, hpe, hpl, hil⟩ hlt
  unfold serializeWitness messageIdRangeCheck
  rw [if_neg (by omega)]
  refine ⟨_, rfl, ?_⟩
  generalize hbs : frToBytesLe w.identitySecret ++ frToBytesLe w.userMessageLimit ++
    frToBytesLe w.messageId ++ vecFrToBytesLe w.pathElements ++ vecU8ToBytesLe w.identityPathIndex ++
    frToBytesLe w.x ++ frToBytesLe w.externalNullifier = bs
  have hvf := (vecFr_roundtrip w.pathElements hpe hpl).1
  have hvu : (vecU8ToBytesLe w.identityPathIndex).length = 8 + w.identityPathIndex.length := by
    simp [vecU8ToBytesLe, normalizeUsize_length]
  have hlen : bs.length = 96 + (8 + 32 * w.pathElements.length) + (8 + w.identityPathIndex.length) + 64 := by
    rw [← hbs]; simp only [List.length_append, frToBytesLe_length, hvf, hvu]
  have f0 : fr32 bs 0 = w.identitySecret := by
    unfold fr32
    rw [slice_eq bs [] (frToBytesLe w.identitySecret) _ 0 32 (by rw [← hbs]; simp only [List.append_assoc, List.nil_append]; rfl) rfl
      (frToBytesLe_length _), leNat_frToBytesLe _ hs]
  have f32 : fr32 bs 32 = w.userMessageLimit := by
    unfold fr32
    rw [slice_eq bs (frToBytesLe w.identitySecret) (frToBytesLe w.userMessageLimit) _ 32 32
      (by rw [← hbs]; simp only [List.append_assoc]; rfl) (frToBytesLe_length _)
      (frToBytesLe_length _), leNat_frToBytesLe _ hlim]
  have f64 : fr32 bs 64 = w.messageId := by
    unfold fr32
    rw [slice_eq bs (frToBytesLe w.identitySecret ++ frToBytesLe w.userMessageLimit) (frToBytesLe w.messageId) _ 64 32
      (by rw [← hbs]; simp only [List.append_assoc]; rfl) (by simp [frToBytesLe_length])
      (frToBytesLe_length _), leNat_frToBytesLe _ hm]
  have c1 : cnt1 bs = w.pathElements.length := by
    unfold cnt1
    rw [slice_eq bs (frToBytesLe w.identitySecret ++ frToBytesLe w.userMessageLimit ++ frToBytesLe w.messageId)
      (normalizeUsize w.pathElements.length) _ 96 8
      (by rw [← hbs]; simp only [vecFrToBytesLe, List.append_assoc]; rfl) (by simp [frToBytesLe_length])
      (normalizeUsize_length _), leNat_normalizeUsize _ hpl]
  have hd96 : bs.drop 96 = vecFrToBytesLe w.pathElements ++ (vecU8ToBytesLe w.identityPathIndex ++
      frToBytesLe w.x ++ frToBytesLe w.externalNullifier) := by
    rw [← hbs]; simp only [List.append_assoc]
    rw [← List.append_assoc, ← List.append_assoc]
    exact List.drop_left' (by simp [frToBytesLe_length])
  have fp : frsAt (bs.drop 96) 0 w.pathElements.length = w.pathElements := by
    rw [hd96, frsAt_append _ _ _ _ (by rw [hvf]; omega)]
    unfold vecFrToBytesLe
    exact frsAt_flatten _ _ 0 hpe (by rw [normalizeUsize_length])
  have c2 : cnt2 bs = w.identityPathIndex.length := by
    unfold cnt2
    rw [c1, slice_eq bs (frToBytesLe w.identitySecret ++ frToBytesLe w.userMessageLimit ++ frToBytesLe w.messageId ++ vecFrToBytesLe w.pathElements)
      (normalizeUsize w.identityPathIndex.length) _ _ 8
      (by rw [← hbs]; simp only [vecU8ToBytesLe, List.append_assoc]; rfl) (by simp [frToBytesLe_length, hvf]; omega)
      (normalizeUsize_length _), leNat_normalizeUsize _ hil]
  have fi : (bs.drop (96 + (8 + 32 * w.pathElements.length) + 8)).take w.identityPathIndex.length = w.identityPathIndex := by
    rw [slice_eq bs (frToBytesLe w.identitySecret ++ frToBytesLe w.userMessageLimit ++ frToBytesLe w.messageId ++ vecFrToBytesLe w.pathElements ++ normalizeUsize w.identityPathIndex.length)
      w.identityPathIndex _ _ _
      (by rw [← hbs]; simp only [vecU8ToBytesLe, List.append_assoc]; rfl) (by simp [frToBytesLe_length, hvf, normalizeUsize_length]; omega)
      rfl]
  have fx : fr32 bs (96 + (8 + 32 * w.pathElements.length) + (8 + w.identityPathIndex.length)) = w.x := by
    unfold fr32
    rw [slice_eq bs (frToBytesLe w.identitySecret ++ frToBytesLe w.userMessageLimit ++ frToBytesLe w.messageId ++ vecFrToBytesLe w.pathElements ++ vecU8ToBytesLe w.identityPathIndex)
      (frToBytesLe w.x) _ _ 32
      (by rw [← hbs]) (by simp [frToBytesLe_length, hvf, hvu]; omega)
      (frToBytesLe_length _), leNat_frToBytesLe _ hx]
  have fe : fr32 bs (96 + (8 + 32 * w.pathElements.length) + (8 + w.identityPathIndex.length) + 32) = w.externalNullifier := by
    unfold fr32
    rw [slice_eq bs (frToBytesLe w.identitySecret ++ frToBytesLe w.userMessageLimit ++ frToBytesLe w.messageId ++ vecFrToBytesLe w.pathElements ++ vecU8ToBytesLe w.identityPathIndex ++ frToBytesLe w.x)
      (frToBytesLe w.externalNullifier) [] _ 32
      (by rw [← hbs, List.append_nil]) (by simp [frToBytesLe_length, hvf, hvu]; omega)
      (frToBytesLe_length _), leNat_frToBytesLe _ he]
  refine ⟨hlen, ?_⟩
  rw [deserializeWitness_eq, c1, c2, f0, f32, f64, fp, fi, fx, fe, hlen]
  rw [if_neg (by omega), if_neg (by omega), if_neg (by omega), if_neg (by omega), if_neg (by omega),
    if_neg (by omega), if_neg (by omega)]

/-! ## proof values, request layouts -/

theorem fr32_append (l e : List UInt8) (off : Nat) (h : off + 32 ≤ l.length) :
    fr32 (l ++ e) off = fr32 l off := by
  unfold fr32; rw [slice_append _ _ _ _ h]

theorem fr32_eq (l pre post : List UInt8) (v off : Nat) (hv : v < P)
    (h : l = pre ++ frToBytesLe v ++ post) (h1 : pre.length = off) : fr32 l off = v := by
  unfold fr32
  rw [slice_eq l pre _ post off 32 h h1 (frToBytesLe_length v), leNat_frToBytesLe v hv]

theorem serializeProofValues_length (v : ProofValues) : (serializeProofValues v).length = 160 := by
  simp only [serializeProofValues, List.length_append, frToBytesLe_length]

theorem fr32_spv (v : ProofValues) (hv : CanonV v) :
    fr32 (serializeProofValues v) 0 = v.root ∧ fr32 (serializeProofValues v) 32 = v.externalNullifier ∧
    fr32 (serializeProofValues v) 64 = v.x ∧ fr32 (serializeProofValues v) 96 = v.y ∧
    fr32 (serializeProofValues v) 128 = v.nullifier := by
  obtain ⟨hy, hn, hr, hx, he⟩ := hv
  refine ⟨?_, ?_, ?_, ?_, ?_⟩
  · exact fr32_eq _ [] _ _ _ hr (by simp only [serializeProofValues, List.append_assoc, List.nil_append]; rfl) rfl
  · exact fr32_eq _ (frToBytesLe v.root) _ _ _ he
      (by simp only [serializeProofValues, List.append_assoc]; rfl) (frToBytesLe_length _)
  · exact fr32_eq _ (frToBytesLe v.root ++ frToBytesLe v.externalNullifier) _ _ _ hx
      (by simp only [serializeProofValues, List.append_assoc]; rfl) (by simp [frToBytesLe_length])
  · exact fr32_eq _ (frToBytesLe v.root ++ frToBytesLe v.externalNullifier ++ frToBytesLe v.x) _ _ _ hy
      (by simp only [serializeProofValues, List.append_assoc]; rfl) (by simp [frToBytesLe_length])
  · exact fr32_eq _ (frToBytesLe v.root ++ frToBytesLe v.externalNullifier ++ frToBytesLe v.x ++
        frToBytesLe v.y) [] _ _ hn
      (by simp only [serializeProofValues, List.append_nil]) (by simp [frToBytesLe_length])

theorem dpv_append (v : ProofValues) (hv : CanonV v) (rest : List UInt8) :
    deserializeProofValues (serializeProofValues v ++ rest) = .ok (v, 160) := by
  have hl := serializeProofValues_length v
  obtain ⟨h0, h1, h2, h3, h4⟩ := fr32_spv v hv
  unfold deserializeProofValues
  rw [if_neg (by rw [List.length_append, hl]; omega),
    fr32_append _ _ _ (by omega), fr32_append _ _ _ (by omega), fr32_append _ _ _ (by omega),
    fr32_append _ _ _ (by omega), fr32_append _ _ _ (by omega), h0, h1, h2, h3, h4]

theorem proofValues_roundtrip : ProofValuesRoundtripStmt := by
  intro v hv
  refine ⟨serializeProofValues_length v, ?_⟩
  have := dpv_append v hv []
  rwa [List.append_nil] at this

theorem proveInput_roundtrip : ProveInputRoundtripStmt := by
  intro h2f treeProof s i lim m e signal π hs hlim hm he hi hsl htp
  generalize hbs : prepareProveInput s i lim m e signal = bs
  have hlen : bs.length = 144 + signal.length := by
    rw [← hbs]
    simp only [prepareProveInput, List.length_append, frToBytesLe_length, normalizeUsize_length]
  have f0 : fr32 bs 0 = s :=
    fr32_eq _ [] _ _ _ hs (by rw [← hbs]; simp only [prepareProveInput, List.append_assoc, List.nil_append]; rfl) rfl
  have fi : leNat ((bs.drop 32).take 8) = i := by
    rw [slice_eq bs (frToBytesLe s) (normalizeUsize i) _ 32 8
      (by rw [← hbs]; simp only [prepareProveInput, List.append_assoc]; rfl) (frToBytesLe_length _)
      (normalizeUsize_length _), leNat_normalizeUsize _ hi]
  have f40 : fr32 bs 40 = lim :=
    fr32_eq _ (frToBytesLe s ++ normalizeUsize i) _ _ _ hlim
      (by rw [← hbs]; simp only [prepareProveInput, List.append_assoc]; rfl)
      (by simp [frToBytesLe_length, normalizeUsize_length])
  have f72 : fr32 bs 72 = m :=
    fr32_eq _ (frToBytesLe s ++ normalizeUsize i ++ frToBytesLe lim) _ _ _ hm
      (by rw [← hbs]; simp only [prepareProveInput, List.append_assoc]; rfl)
      (by simp [frToBytesLe_length, normalizeUsize_length])
  have f104 : fr32 bs 104 = e :=
    fr32_eq _ (frToBytesLe s ++ normalizeUsize i ++ frToBytesLe lim ++ frToBytesLe m) _ _ _ he
      (by rw [← hbs]; simp only [prepareProveInput, List.append_assoc]; rfl)
      (by simp [frToBytesLe_length, normalizeUsize_length])
  have fs : leNat ((bs.drop 136).take 8) = signal.length := by
    rw [slice_eq bs (frToBytesLe s ++ normalizeUsize i ++ frToBytesLe lim ++ frToBytesLe m ++ frToBytesLe e)
      (normalizeUsize signal.length) signal 136 8
      (by rw [← hbs]; rfl) (by simp [frToBytesLe_length, normalizeUsize_length])
      (normalizeUsize_length _), leNat_normalizeUsize _ hsl]
  have fsig : (bs.drop 144).take signal.length = signal := by
    rw [slice_eq bs (frToBytesLe s ++ normalizeUsize i ++ frToBytesLe lim ++ frToBytesLe m ++ frToBytesLe e ++
      normalizeUsize signal.length) signal [] 144 _
      (by rw [← hbs, List.append_nil]; rfl) (by simp [frToBytesLe_length, normalizeUsize_length]) rfl]
  unfold proofInputsToWitness
  rw [if_neg (by omega)]
  simp only [f0, fi, f40, f72, f104, fs, fsig, htp]
  rw [if_neg (by omega)]

/-! ## C13 — untrusted verification input -/

theorem allCanonical_iff (n : Nat) (b : List UInt8) :
    allCanonical n b = true ↔
      32 * n ≤ b.length ∧ ∀ j, j < n → leNat ((b.drop (32 * j)).take 32) < P := by
  induction n generalizing b with
  | zero => simp [allCanonical]
  | succ n ih =>
    simp only [allCanonical, Bool.and_eq_true, decide_eq_true_eq, ih, List.length_drop,
      List.drop_drop]
    constructor
    · rintro ⟨⟨h1, h2⟩, h3, h4⟩
      refine ⟨by omega, ?_⟩
      intro j hj
      cases j with
      | zero => simpa using h2
      | succ j =>
        have := h4 j (by omega)
        rwa [show 32 + 32 * j = 32 * (j + 1) by omega] at this
    · rintro ⟨h1, h2⟩
      refine ⟨⟨by omega, by simpa using h2 0 (by omega)⟩, by omega, ?_⟩
      intro j hj
      have := h2 (j + 1) (by omega)
      rwa [show 32 * (j + 1) = 32 + 32 * j by omega] at this

theorem dpv_ok (bs : List UInt8) (h : 160 ≤ bs.length) :
    deserializeProofValues bs =
      .ok ({ root := fr32 bs 0, externalNullifier := fr32 bs 32, x := fr32 bs 64, y := fr32 bs 96,
             nullifier := fr32 bs 128 }, 160) := by
  unfold deserializeProofValues; rw [if_neg (by omega)]

theorem verifyProof_ne_panic {Pr : Type} (Z : Snark Pr) (proof : Pr) (v : ProofValues) :
    verifyProof Z proof v ≠ .panic := by
  unfold verifyProof; split <;> simp

theorem verifyProof_ok {Pr : Type} (Z : Snark Pr) (proof : Pr) (v : ProofValues) (b : Bool) :
    verifyProof Z proof v = .ok b ↔ Z.verify proof (publicInputs v) = some b := by
  unfold verifyProof; split <;> simp_all

theorem verify_ne_panic {Pr : Type} (Z : Snark Pr) (bs : List UInt8) : verify Z bs ≠ .panic := by
  unfold verify
  split; · simp
  next hl =>
  split; · simp
  split; · simp
  rw [dpv_ok _ (by rw [List.length_drop]; omega)]
  exact verifyProof_ne_panic _ _ _

theorem verifyFront_ne_panic {Pr : Type} (Z : Snark Pr) (bs : List UInt8) :
    verifyFront Z bs ≠ .panic := by
  unfold verifyFront
  split; · simp
  next hl =>
  split; · simp
  split; · simp
  rw [dpv_ok _ (by rw [List.length_drop]; omega)]
  simp only []
  split; · simp
  next proof _ _ =>
  split
  · simp
  · simp
  · next h => exact absurd h (verifyProof_ne_panic _ _ _)

theorem verifyFront_some {Pr : Type} (Z : Snark Pr) (bs : List UInt8) (b : Bool) (v : ProofValues)
    (signal : List UInt8) (h : verifyFront Z bs = .ok (some (b, v, signal))) :
    296 ≤ bs.length ∧ allCanonical 5 ((bs.drop 128).take 160) = true ∧
    ∃ proof, Z.decode (bs.take 128) = some proof ∧
      deserializeProofValues (bs.drop 128) = .ok (v, 160) ∧
      bs.length - 296 = leNat ((bs.drop 288).take 8) ∧ signal = bs.drop 296 ∧
      Z.verify proof (publicInputs v) = some b := by
  unfold verifyFront at h
  split at h; · cases h
  next hl =>
  split at h; · cases h
  next hc =>
  split at h; · cases h
  next proof hd =>
  have hdp := dpv_ok (bs.drop 128) (by rw [List.length_drop]; omega)
  rw [hdp] at h
  simp only [] at h
  split at h; · cases h
  next hs =>
  split at h
  · next b' hb' =>
    injection h with h; injection h with h; injection h with h1 h; injection h with h2 h3
    subst h1 h2
    refine ⟨by omega, by simpa using hc, proof, hd, hdp, by omega, ?_, (verifyProof_ok _ _ _ _).mp hb'⟩
    rw [← h3, List.take_of_length_le (by rw [List.length_drop]; omega)]
  · cases h
  · cases h

theorem verifyFront_none {Pr : Type} (Z : Snark Pr) (bs : List UInt8)
    (h : allCanonical 5 ((bs.drop 128).take 160) = false) :
    verifyFront Z bs = .err ∨ verifyFront Z bs = .ok none := by
  unfold verifyFront
  split
  · exact Or.inl rfl
  · rw [h]; exact Or.inr rfl

theorem verify_total : VerifyTotalStmt := by
  intro Pr Z h2f root bs rb
  refine ⟨verify_ne_panic Z bs, ?_, ?_, ?_⟩
  · unfold verifyRlnProof
    split
    · simp
    · simp
    · simp
    · next h => exact absurd h (verifyFront_ne_panic Z bs)
  · unfold verifyWithRoots
    split
    · simp
    · simp only []; split; · simp
      split <;> simp
    · simp
    · next h => exact absurd h (verifyFront_ne_panic Z bs)
  · unfold recoverIdSecret
    split; · simp
    rw [dpv_ok _ (by rw [List.length_drop]; omega)]
    simp only []
    split; · simp
    rw [dpv_ok _ (by rw [List.length_drop]; omega)]
    simp only []
    split
    · have hc : ∀ a b c d, computeIdSecret a b c d ≠ .panic := by
        intro a b c d; unfold computeIdSecret; split <;> simp
      split
      · simp
      · simp
      · next h => exact absurd h (hc _ _ _ _)
    · simp

theorem verify_true {Pr : Type} (Z : Snark Pr) (bs : List UInt8) (h : verify Z bs = .ok true) :
    bs.length = 288 ∧ allCanonical 5 (bs.drop 128) = true ∧
    ∃ proof v, Z.decode (bs.take 128) = some proof ∧
      deserializeProofValues (bs.drop 128) = .ok (v, 160) ∧
      Z.verify proof (publicInputs v) = some true := by
  unfold verify at h
  split at h; · cases h
  next hl =>
  split at h; · cases h
  next hc =>
  split at h; · cases h
  next proof hd =>
  have hdp := dpv_ok (bs.drop 128) (by rw [List.length_drop]; omega)
  rw [hdp] at h
  simp only [] at h
  exact ⟨by omega, by simpa using hc, proof, _, hd, hdp, (verifyProof_ok _ _ _ _).mp h⟩

theorem verifyRln_true {Pr : Type} (Z : Snark Pr) (h2f : List UInt8 → Nat) (root : Nat)
    (bs : List UInt8) (h : verifyRlnProof Z h2f root bs = .ok true) :
    ∃ v signal, verifyFront Z bs = .ok (some (true, v, signal)) ∧ root = v.root ∧ h2f signal = v.x := by
  unfold verifyRlnProof at h
  split at h
  · cases h
  · next b v signal hf =>
    injection h with h
    simp only [Bool.and_eq_true, decide_eq_true_eq] at h
    obtain ⟨⟨hb, hr⟩, hx⟩ := h
    subst hb
    exact ⟨v, signal, hf, hr, hx⟩
  · cases h
  · cases h

theorem verifyRoots_true {Pr : Type} (Z : Snark Pr) (h2f : List UInt8 → Nat)
    (bs rb : List UInt8) (h : verifyWithRoots Z h2f bs rb = .ok true) :
    ∃ v signal, verifyFront Z bs = .ok (some (true, v, signal)) ∧ h2f signal = v.x ∧
      rb.length % 32 = 0 ∧
      ((parseRoots (rb.length / 32 + 1) rb).isEmpty = true ∨
        (parseRoots (rb.length / 32 + 1) rb).contains v.root = true) := by
  unfold verifyWithRoots at h
  split at h
  · cases h
  · next b v signal hf =>
    simp only [] at h
    by_cases hp : (b && decide (h2f signal = v.x)) = true
    · simp only [hp, Bool.not_true, Bool.false_eq_true, if_false] at h
      simp only [Bool.and_eq_true, decide_eq_true_eq] at hp
      obtain ⟨hb, hx⟩ := hp
      subst hb
      split at h; · cases h
      next hm =>
      injection h with h
      refine ⟨v, signal, hf, hx, by omega, ?_⟩
      split at h
      · next he => exact Or.inl he
      · exact Or.inr h
    · simp only [Bool.not_eq_true] at hp
      simp [hp] at h
  · cases h
  · cases h

theorem accepted_canonical : AcceptedCanonicalStmt := by
  intro Pr Z h2f root bs rb
  refine ⟨fun h => (verify_true Z bs h).2.1, fun h => ?_, fun h => ?_⟩
  · obtain ⟨v, signal, hf, -, -⟩ := verifyRln_true Z h2f root bs h
    exact (verifyFront_some Z bs _ _ _ hf).2.1
  · obtain ⟨v, signal, hf, -, -, -⟩ := verifyRoots_true Z h2f bs rb h
    exact (verifyFront_some Z bs _ _ _ hf).2.1

theorem alias_rejected : AliasRejectedStmt := by
  intro Pr Z h2f root bs rb j hj hge
  have key1 : allCanonical 5 (bs.drop 128) = true → False := by
    intro hc
    have := ((allCanonical_iff 5 _).mp hc).2 j hj
    rw [List.drop_drop] at this
    omega
  have key2 : allCanonical 5 ((bs.drop 128).take 160) = true → False := by
    intro hc
    have := ((allCanonical_iff 5 _).mp hc).2 j hj
    rw [slice_take _ _ _ _ (by omega), List.drop_drop] at this
    omega
  have ac := accepted_canonical Z h2f root bs rb
  exact ⟨fun h => key1 (ac.1 h), fun h => key2 (ac.2.1 h), fun h => key2 (ac.2.2 h)⟩

theorem eq_of_chunks (n : Nat) (b1 b2 : List UInt8) (h1 : b1.length = 32 * n) (h2 : b2.length = 32 * n)
    (h : ∀ j, j < n → (b1.drop (32 * j)).take 32 = (b2.drop (32 * j)).take 32) : b1 = b2 := by
  induction n generalizing b1 b2 with
  | zero => rw [List.eq_nil_of_length_eq_zero h1, List.eq_nil_of_length_eq_zero h2]
  | succ n ih =>
    rw [← List.take_append_drop 32 b1, ← List.take_append_drop 32 b2]
    have h0 := h 0 (by omega)
    simp only [Nat.mul_zero, List.drop_zero] at h0
    rw [h0, ih (b1.drop 32) (b2.drop 32) (by rw [List.length_drop]; omega)
      (by rw [List.length_drop]; omega) ?_]
    intro j hj
    have := h (j + 1) (by omega)
    rw [List.drop_drop, List.drop_drop]
    rwa [show 32 * (j + 1) = 32 + 32 * j by omega] at this

theorem unique_encoding : UniqueEncodingStmt := by
  intro b1 b2 v h1 h2 c1 c2 d1 d2
  rw [dpv_ok _ (by omega)] at d1 d2
  injection d1 with d1; injection d1 with d1
  injection d2 with d2; injection d2 with d2
  have hv := d1.trans d2.symm
  injection hv with e0 e1 e2 e3 e4
  obtain ⟨-, k1⟩ := (allCanonical_iff 5 b1).mp c1
  obtain ⟨-, k2⟩ := (allCanonical_iff 5 b2).mp c2
  apply eq_of_chunks 5 b1 b2 h1 h2
  intro j hj
  apply leNat_inj
  · have a1 := k1 j hj
    have a2 := k2 j hj
    have e : fr32 b1 (32 * j) = fr32 b2 (32 * j) := by
      rcases (by omega : j = 0 ∨ j = 1 ∨ j = 2 ∨ j = 3 ∨ j = 4) with rfl | rfl | rfl | rfl | rfl
      · exact e2
      · exact e4
      · exact e3
      · exact e0
      · exact e1
    unfold fr32 at e
    rwa [Nat.mod_eq_of_lt a1, Nat.mod_eq_of_lt a2] at e
  · simp only [List.length_take, List.length_drop]; omega

/-! ## C02 — what acceptance implies -/

theorem verify_sound : VerifySoundStmt := by
  intro Pr Z bs h
  obtain ⟨hl, -, proof, v, hd, hv, hz⟩ := verify_true Z bs h
  exact ⟨proof, v, hl, hd, hv, hz⟩

theorem bs_split (bs : List UInt8) (h : 296 ≤ bs.length)
    (hs : bs.length - 296 = leNat ((bs.drop 288).take 8)) :
    bs = bs.take 288 ++ natLE 8 (bs.drop 296).length ++ bs.drop 296 ∧ (bs.drop 296).length < 2 ^ 64 := by
  have hc : ((bs.drop 288).take 8).length = 8 := by
    rw [List.length_take, List.length_drop]; omega
  have hlt := leNat_lt ((bs.drop 288).take 8)
  rw [hc, two64] at hlt
  refine ⟨?_, by rw [List.length_drop]; omega⟩
  rw [List.length_drop, hs]
  have := natLE_leNat ((bs.drop 288).take 8)
  rw [hc] at this
  rw [this, List.append_assoc, show bs.drop 296 = (bs.drop 288).drop 8 by rw [List.drop_drop],
    List.take_append_drop, List.take_append_drop]

theorem verifyRln_sound : VerifyRlnSoundStmt := by
  intro Pr Z h2f root bs h
  obtain ⟨v, signal, hf, hr, hx⟩ := verifyRln_true Z h2f root bs h
  obtain ⟨hl, -, proof, hd, hv, hs, hsig, hz⟩ := verifyFront_some Z bs _ _ _ hf
  obtain ⟨e1, e2⟩ := bs_split bs hl hs
  subst hsig
  exact ⟨proof, v, _, hd, hv, e1, e2, hz, hx.symm, hr.symm⟩

theorem parseRoots_mem (f : Nat) (bs : List UInt8) (r : Nat) (h : r ∈ parseRoots f bs) :
    ∃ k, k < bs.length / 32 ∧ leNat ((bs.drop (32 * k)).take 32) % P = r := by
  induction f generalizing bs with
  | zero => simp [parseRoots] at h
  | succ f ih =>
    unfold parseRoots at h
    split at h
    · simp at h
    · rcases List.mem_cons.mp h with h | h
      · exact ⟨0, by omega, by simpa using h.symm⟩
      · obtain ⟨k, hk, he⟩ := ih _ h
        rw [List.length_drop] at hk
        rw [List.drop_drop] at he
        exact ⟨k + 1, by omega, by rwa [show 32 * (k + 1) = 32 + 32 * k by omega]⟩

theorem verifyRoots_sound : VerifyRootsSoundStmt := by
  intro Pr Z h2f bs rb h
  obtain ⟨v, signal, hf, hx, hm, hroots⟩ := verifyRoots_true Z h2f bs rb h
  obtain ⟨hl, -, proof, hd, hv, hs, hsig, hz⟩ := verifyFront_some Z bs _ _ _ hf
  obtain ⟨e1, -⟩ := bs_split bs hl hs
  subst hsig
  refine ⟨proof, v, _, hd, hv, e1, hz, hx.symm, hm, ?_⟩
  rcases hroots with he | hc
  · left
    unfold parseRoots at he
    split at he
    · apply List.eq_nil_of_length_eq_zero; omega
    · simp at he
  · right
    exact parseRoots_mem _ _ _ (by simpa using hc)

theorem allCanonical_cons (n v : Nat) (rest : List UInt8) (hv : v < P) :
    allCanonical (n + 1) (frToBytesLe v ++ rest) = allCanonical n rest := by
  rw [allCanonical, List.take_left' (frToBytesLe_length v), List.drop_left' (frToBytesLe_length v),
    leNat_frToBytesLe' v hv]
  simp [frToBytesLe_length, hv]

theorem allCanonical_spv (v : ProofValues) (hv : CanonV v) :
    allCanonical 5 (serializeProofValues v) = true := by
  obtain ⟨hy, hn, hr, hx, he⟩ := hv
  unfold serializeProofValues
  rw [← List.append_nil (frToBytesLe v.nullifier)]
  simp only [List.append_assoc]
  rw [allCanonical_cons _ _ _ hr, allCanonical_cons _ _ _ he, allCanonical_cons _ _ _ hx,
    allCanonical_cons _ _ _ hy, allCanonical_cons _ _ _ hn]
  rfl

theorem verifyFront_prepared {Pr : Type} (Z : Snark Pr) (pb : List UInt8) (v : ProofValues)
    (signal : List UInt8) (proof : Pr) (b : Bool)
    (hpb : pb.length = 128) (hv : CanonV v) (hsl : signal.length < 2 ^ 64)
    (hd : Z.decode pb = some proof) (hz : Z.verify proof (publicInputs v) = some b) :
    verifyFront Z (prepareVerifyInput (pb ++ serializeProofValues v) signal) =
      .ok (some (b, v, signal)) := by
  generalize hbs : prepareVerifyInput (pb ++ serializeProofValues v) signal = bs
  have hspv := serializeProofValues_length v
  have hlen : bs.length = 296 + signal.length := by
    rw [← hbs]
    simp only [prepareVerifyInput, List.length_append, hpb, hspv, normalizeUsize_length]
  have h1 : (bs.drop 128).take 160 = serializeProofValues v :=
    slice_eq bs pb _ (normalizeUsize signal.length ++ signal) 128 160
      (by rw [← hbs]; simp only [prepareVerifyInput, List.append_assoc]) hpb hspv
  have h2 : bs.take 128 = pb := by
    rw [← hbs]; simp only [prepareVerifyInput, List.append_assoc]; exact List.take_left' hpb
  have h3 : bs.drop 128 = serializeProofValues v ++ (normalizeUsize signal.length ++ signal) := by
    rw [← hbs]; simp only [prepareVerifyInput, List.append_assoc]; exact List.drop_left' hpb
  have h4 : leNat ((bs.drop 288).take 8) = signal.length := by
    rw [slice_eq bs (pb ++ serializeProofValues v) (normalizeUsize signal.length) signal 288 8
      (by rw [← hbs]; rfl) (by rw [List.length_append, hpb, hspv]) (normalizeUsize_length _),
      leNat_normalizeUsize _ hsl]
  have h5 : (bs.drop 296).take signal.length = signal :=
    slice_eq bs (pb ++ serializeProofValues v ++ normalizeUsize signal.length) signal [] 296 _
      (by rw [← hbs, List.append_nil]; rfl)
      (by simp only [List.length_append, hpb, hspv, normalizeUsize_length]) rfl
  have h6 : verifyProof Z proof v = .ok b := (verifyProof_ok _ _ _ _).mpr hz
  unfold verifyFront
  rw [if_neg (by omega), h1, allCanonical_spv v hv]
  simp only [Bool.not_true, Bool.false_eq_true, if_false, h2, hd, h3, dpv_append v hv, h4, h5, h6]
  rw [if_neg (by rw [hlen]; omega)]

theorem verifyRln_exact : VerifyRlnExactStmt := by
  intro Pr Z h2f root pb v signal proof b hpb hv hsl hd hz
  unfold verifyRlnProof
  rw [verifyFront_prepared Z pb v signal proof b hpb hv hsl hd hz]

theorem parseRoots_flatten (roots : List Nat) (f : Nat) (hf : roots.length < f)
    (hr : ∀ r ∈ roots, r < P) : parseRoots f (roots.map frToBytesLe).flatten = roots := by
  induction roots generalizing f with
  | nil => cases f <;> simp [parseRoots]
  | cons e r ih =>
    cases f with
    | zero => simp at hf
    | succ f =>
      simp only [List.map_cons, List.flatten_cons, parseRoots]
      rw [if_neg (by rw [List.length_append, frToBytesLe_length]; omega),
        List.take_left' (frToBytesLe_length e), List.drop_left' (frToBytesLe_length e),
        leNat_frToBytesLe e (hr e List.mem_cons_self),
        ih f (by simpa using hf) (fun x hx => hr x (List.mem_cons_of_mem _ hx))]

theorem verifyRoots_exact : VerifyRootsExactStmt := by
  intro Pr Z h2f roots pb v signal proof b hpb hv hsl hd hz hr
  unfold verifyWithRoots
  rw [verifyFront_prepared Z pb v signal proof b hpb hv hsl hd hz]
  simp only []
  have hL : (roots.map frToBytesLe).flatten.length = 32 * roots.length := frs_flatten_length roots
  by_cases hp : (b && decide (h2f signal = v.x)) = true
  · rw [hp]
    simp only [Bool.not_true, Bool.false_eq_true, if_false, Bool.true_and]
    rw [if_neg (by rw [hL]; omega), parseRoots_flatten roots _ (by rw [hL]; omega) hr]
    cases roots.isEmpty <;> simp
  · simp only [Bool.not_eq_true] at hp
    rw [hp]
    simp

end Zk.Proto
