import ZkModel.Qap
/-!
# Statements about the witness map (C18 / C01, anchor `rln/src/circuit/qap.rs:26-103`)

STATEMENTS only; proofs in `QapProofs.lean`, property theorems in `C18Qap.lean`.
-/
namespace Zk
open Zk.Qap

/-- model (the code's transform pipeline) and specification (Lagrange form of the doc comment) fail on exactly the same
    inputs and in the same way: they share the row evaluation, the only place where the code can fail -/
def QapOutcomeAgreeStmt : Prop :=
  ∀ (A B : List (List (Nat × Nat))) (ni nc : Nat) (w : List Nat),
    (witnessMap A B ni nc w = .panic ↔ witnessMapSpec A B ni nc w = .panic) ∧
    (witnessMap A B ni nc w = .err ↔ witnessMapSpec A B ni nc w = .err)

/-- a returned vector has one entry per element of the evaluation domain, in the model and in the specification -/
def QapLengthStmt : Prop :=
  ∀ (A B : List (List (Nat × Nat))) (ni nc : Nat) (w h : List Nat),
    (witnessMap A B ni nc w = .ok h → h.length = 2 ^ logSize (nc + ni)) ∧
    (witnessMapSpec A B ni nc w = .ok h → h.length = 2 ^ logSize (nc + ni))

/-- the only error is a domain that does not exist (`PolynomialDegreeTooLarge`): the doubled domain needs `log n + 1 ≤ 28` -/
def QapErrStmt : Prop :=
  ∀ (A B : List (List (Nat × Nat))) (ni nc : Nat) (w : List Nat),
    witnessMap A B ni nc w = .err → 28 < logSize (nc + ni) + 1

/-- row evaluation never returns an error value, and panics exactly when a term addresses a position outside the assignment -/
def QapRowStmt : Prop :=
  ∀ (w : List Nat) (row : List (Nat × Nat)),
    evalRow w row ≠ .err ∧ (evalRow w row = .panic ↔ ∃ t ∈ row, w.length ≤ t.2)

end Zk
