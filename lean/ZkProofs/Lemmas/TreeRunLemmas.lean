import ZkProofs.Lemmas.TreeRun
import ZkProofs.Lemmas.FullProofs
import ZkProofs.Lemmas.OptimalProofs
import ZkProofs.Lemmas.IdealProofs
/-!
# Lifting the per-operation refinement lemmas to histories

Helpers for the property files C06, C07, C08, C15 (flat and sparse backends).
-/
namespace Zk.Tree

variable {α : Type} [Inhabited α]

/-! ## the membership-proof helpers of the two backends are the specification's -/

omit [Inhabited α] in
theorem Full.computeRootFrom_eq (H : α → α → α) (p : List (α × Nat)) : ∀ lf : α,
    Full.computeRootFrom H lf p = Ideal.computeRoot H lf p := by
  induction p with
  | nil => intro lf; rfl
  | cons x r ih => intro lf; obtain ⟨s, b⟩ := x; simp only [Full.computeRootFrom, Ideal.computeRoot, ih]

omit [Inhabited α] in
theorem Optimal.computeRootFrom_eq (H : α → α → α) (p : List (α × Nat)) : ∀ lf : α,
    Optimal.computeRootFrom H lf p = Ideal.computeRoot H lf p := by
  induction p with
  | nil => intro lf; rfl
  | cons x r ih => intro lf; obtain ⟨s, b⟩ := x; simp only [Optimal.computeRootFrom, Ideal.computeRoot, ih]

omit [Inhabited α] in
theorem Full.leafIndex_eq (p : List (α × Nat)) (hb : ∀ x ∈ p, x.2 = 0 ∨ x.2 = 1) :
    Full.leafIndex p = p.foldr (fun x acc => 2 * acc + x.2) 0 := by
  induction p with
  | nil => rfl
  | cons x r ih =>
    have ih' := ih (fun y hy => hb y (List.mem_cons_of_mem _ hy))
    unfold Full.leafIndex at ih' ⊢
    simp only [List.foldr_cons, ih']
    rcases hb x (List.mem_cons_self) with h | h <;> simp [h]

omit [Inhabited α] in
theorem Optimal.leafIndex_eq (p : List (α × Nat)) :
    Optimal.leafIndex p = p.foldr (fun x acc => 2 * acc + x.2) 0 := rfl

/-! ## `FullMerkleTree` -/

section full
variable (H : α → α → α) (dflt : α)

theorem Full.applyOp_refines {t : Full α} {s : Ideal α} (h : Full.Rel H dflt t s) (op : TreeOp α) :
    RefinesOutcome (Full.Rel H dflt) t s (Full.applyOp H dflt t op) (Ideal.applyOp dflt s op) := by
  cases op with
  | set i v => exact Full.set_rel H dflt t s i v h
  | delete i =>
    obtain ⟨t', e, r⟩ := Full.delete_rel H dflt t s i h
    simp only [Full.applyOp, Ideal.applyOp, e, RefinesOutcome]
    exact r
  | append v => exact Full.append_rel H dflt t s v h
  | setRange start vs => exact Full.setRange_rel H dflt t s start vs h
  | batch start vs rem => exact Full.batch_rel H dflt t s start vs rem h
  | reset =>
    show Full.Rel H dflt (Full.new H dflt t.depth) (Ideal.new s.depth)
    rw [h.depth]
    exact Full.new_rel H dflt _

theorem Full.step_rel {t : Full α} {s : Ideal α} (h : Full.Rel H dflt t s) (op : TreeOp α) :
    Full.Rel H dflt (Full.step H dflt t op) (Ideal.step dflt s op) :=
  (Full.applyOp_refines H dflt h op).keep.1

theorem Full.foldl_rel (ops : List (TreeOp α)) : ∀ (t : Full α) (s : Ideal α), Full.Rel H dflt t s →
    Full.Rel H dflt (ops.foldl (Full.step H dflt) t) (ops.foldl (Ideal.step dflt) s) := by
  induction ops with
  | nil => intro t s h; exact h
  | cons op r ih => intro t s h; exact ih _ _ (Full.step_rel H dflt h op)

theorem Full.run_rel (d : Nat) (ops : List (TreeOp α)) :
    Full.Rel H dflt (Full.run H dflt d ops) (Ideal.run dflt d ops) :=
  Full.foldl_rel H dflt ops _ _ (Full.new_rel H dflt d)

theorem Full.stepOut_eq {t : Full α} {s : Ideal α} (h : Full.Rel H dflt t s) (op : TreeOp α) :
    Full.stepOut H dflt t op = Ideal.stepOut dflt s op := by
  have := (Full.applyOp_refines H dflt h op).keep.2.1
  cases op <;> first | rfl | exact this

theorem Full.step_of_rejected {t : Full α} {s : Ideal α} (h : Full.Rel H dflt t s) (op : TreeOp α)
    (hr : Ideal.stepOut dflt s op = false) : Full.step H dflt t op = t ∧ Ideal.step dflt s op = s := by
  have e := (Full.applyOp_refines H dflt h op).keep.2.1
  cases op with
  | delete i => exact absurd hr (by simp [Ideal.stepOut])
  | reset => exact absurd hr (by simp [Ideal.stepOut])
  | set i v => exact ⟨keepOk_of_not_ok _ _ (e.trans hr), keepOk_of_not_ok _ _ hr⟩
  | append v => exact ⟨keepOk_of_not_ok _ _ (e.trans hr), keepOk_of_not_ok _ _ hr⟩
  | setRange start vs => exact ⟨keepOk_of_not_ok _ _ (e.trans hr), keepOk_of_not_ok _ _ hr⟩
  | batch start vs rem => exact ⟨keepOk_of_not_ok _ _ (e.trans hr), keepOk_of_not_ok _ _ hr⟩

/-- C07 completeness for a tree related to an ideal tree -/
theorem Full.proof_complete_of_rel [BEq α] [LawfulBEq α] {t : Full α} {s : Ideal α}
    (h : Full.Rel H dflt t s) (i : Nat) (hi : i < 2 ^ s.depth) :
    ∃ π, t.proof i = .ok π ∧ t.get i = .ok (s.leaf dflt i) ∧ π.length = s.depth ∧
      Full.leafIndex π = i ∧ (∀ x ∈ π, x.2 = 0 ∨ x.2 = 1) ∧
      Full.computeRootFrom H (s.leaf dflt i) π = t.root ∧
      Full.verify H t (s.leaf dflt i) π = .ok true := by
  obtain ⟨hroot, _, hget, _, _, hproof⟩ := Full.obs_eq H dflt t s h
  obtain ⟨hlen, hdec, hbits, hcr⟩ := Ideal.proof_complete H dflt s i hi
  have hc : Full.computeRootFrom H (s.leaf dflt i) (s.proof H dflt i) = t.root := by
    rw [Full.computeRootFrom_eq, hcr, hroot]
  refine ⟨s.proof H dflt i, ?_, ?_, hlen, ?_, hbits, hc, ?_⟩
  · rw [hproof, if_pos hi]
  · rw [hget, if_pos hi]
  · rw [Full.leafIndex_eq _ hbits, hdec]
  · unfold Full.verify
    rw [hc]
    simp

end full

/-! ## `OptimalMerkleTree` -/

section optimal
variable (M : Type) [MapLike M (Nat × Nat) α] [LawfulMapLike M (Nat × Nat) α]
  (H : α → α → α) (dflt : α)

theorem Optimal.applyOp_refines {t : Optimal α M} {s : Ideal α} (h : Optimal.Rel H dflt t s)
    (op : TreeOp α) :
    RefinesOutcome (Optimal.Rel H dflt) t s (Optimal.applyOp H dflt t op) (Ideal.applyOp dflt s op) := by
  cases op with
  | set i v => exact Optimal.set_rel M H dflt t s i v h
  | delete i =>
    obtain ⟨t', e, r⟩ := Optimal.delete_rel M H dflt t s i h
    simp only [Optimal.applyOp, Ideal.applyOp, e, RefinesOutcome]
    exact r
  | append v => exact Optimal.append_rel M H dflt t s v h
  | setRange start vs => exact Optimal.setRange_rel M H dflt t s start vs h
  | batch start vs rem => exact Optimal.batch_rel M H dflt t s start vs rem h
  | reset =>
    show Optimal.Rel H dflt (Optimal.new H dflt t.depth) (Ideal.new s.depth)
    rw [← h.depth]
    exact Optimal.new_rel M H dflt _ h.inv.depth_pos

theorem Optimal.step_rel {t : Optimal α M} {s : Ideal α} (h : Optimal.Rel H dflt t s) (op : TreeOp α) :
    Optimal.Rel H dflt (Optimal.step H dflt t op) (Ideal.step dflt s op) :=
  (Optimal.applyOp_refines M H dflt h op).keep.1

theorem Optimal.foldl_rel (ops : List (TreeOp α)) : ∀ (t : Optimal α M) (s : Ideal α),
    Optimal.Rel H dflt t s →
    Optimal.Rel H dflt (ops.foldl (Optimal.step H dflt) t) (ops.foldl (Ideal.step dflt) s) := by
  induction ops with
  | nil => intro t s h; exact h
  | cons op r ih => intro t s h; exact ih _ _ (Optimal.step_rel M H dflt h op)

theorem Optimal.run_rel (d : Nat) (hd : 0 < d) (ops : List (TreeOp α)) :
    Optimal.Rel H dflt (Optimal.run (M := M) H dflt d ops) (Ideal.run dflt d ops) :=
  Optimal.foldl_rel M H dflt ops _ _ (Optimal.new_rel M H dflt d hd)

theorem Optimal.stepOut_eq {t : Optimal α M} {s : Ideal α} (h : Optimal.Rel H dflt t s) (op : TreeOp α) :
    Optimal.stepOut H dflt t op = Ideal.stepOut dflt s op := by
  have := (Optimal.applyOp_refines M H dflt h op).keep.2.1
  cases op <;> first | rfl | exact this

theorem Optimal.step_of_rejected {t : Optimal α M} {s : Ideal α} (h : Optimal.Rel H dflt t s)
    (op : TreeOp α) (hr : Ideal.stepOut dflt s op = false) :
    Optimal.step H dflt t op = t ∧ Ideal.step dflt s op = s := by
  have e := (Optimal.applyOp_refines M H dflt h op).keep.2.1
  cases op with
  | delete i => exact absurd hr (by simp [Ideal.stepOut])
  | reset => exact absurd hr (by simp [Ideal.stepOut])
  | set i v => exact ⟨keepOk_of_not_ok _ _ (e.trans hr), keepOk_of_not_ok _ _ hr⟩
  | append v => exact ⟨keepOk_of_not_ok _ _ (e.trans hr), keepOk_of_not_ok _ _ hr⟩
  | setRange start vs => exact ⟨keepOk_of_not_ok _ _ (e.trans hr), keepOk_of_not_ok _ _ hr⟩
  | batch start vs rem => exact ⟨keepOk_of_not_ok _ _ (e.trans hr), keepOk_of_not_ok _ _ hr⟩

theorem Optimal.proof_complete_of_rel [BEq α] [LawfulBEq α] {t : Optimal α M} {s : Ideal α}
    (h : Optimal.Rel H dflt t s) (i : Nat) (hi : i < 2 ^ s.depth) :
    ∃ π, t.proof i = .ok π ∧ t.get i = .ok (s.leaf dflt i) ∧ π.length = s.depth ∧
      Optimal.leafIndex π = i ∧ (∀ x ∈ π, x.2 = 0 ∨ x.2 = 1) ∧
      Optimal.computeRootFrom H (s.leaf dflt i) π = t.root ∧
      Optimal.verify H t (s.leaf dflt i) π = .ok true := by
  obtain ⟨hroot, _, hget, _, _, hproof⟩ := Optimal.obs_eq M H dflt t s h
  obtain ⟨hlen, hdec, hbits, hcr⟩ := Ideal.proof_complete H dflt s i hi
  have hc : Optimal.computeRootFrom H (s.leaf dflt i) (s.proof H dflt i) = t.root := by
    rw [Optimal.computeRootFrom_eq, hcr, hroot]
  refine ⟨s.proof H dflt i, ?_, ?_, hlen, ?_, hbits, hc, ?_⟩
  · rw [hproof, if_pos hi]
  · rw [hget, if_pos hi]
  · rw [Optimal.leafIndex_eq, hdec]
  · unfold Optimal.verify
    rw [hc, hlen, h.depth]
    simp

end optimal

/-! ## the specification: `init_tree_with_leaves`, the empty-leaf list -/

/-- a fresh tree batch-loaded with `vs`: the leaves are `vs` followed by defaults -/
theorem Ideal.init_leaves (dflt : α) (d : Nat) (vs : List α) (hne : vs ≠ []) (hfit : vs.length ≤ 2 ^ d) :
    ∃ s', Ideal.batch dflt (Ideal.new d) 0 vs [] = .ok s' ∧ s'.depth = d ∧ s'.next = vs.length ∧
      ∀ i, s'.leaf dflt i = vs.getD i dflt := by
  have hE : vs.isEmpty = false := by cases vs <;> simp_all
  refine ⟨{ Ideal.writeMany (Ideal.new d) 0 vs with next := vs.length }, ?_, ?_, ?_, ?_⟩
  · unfold Ideal.batch
    rw [if_neg]
    · simp [Ideal.removeMany, hE, Ideal.new]
    · simp only [Ideal.cap, Ideal.new, hE]
      simp
      omega
  · exact Ideal.writeMany_depth _ _ _
  · rfl
  · intro i
    show (Ideal.writeMany (Ideal.new d) 0 vs).leaf dflt i = _
    by_cases hi : i < vs.length
    · have := FullL.writeMany_leaf_in dflt (Ideal.new d) 0 vs i hi
      rw [Nat.zero_add] at this
      rw [this]
      simp [hi]
    · rw [FullL.writeMany_leaf_out dflt _ 0 vs i (by omega)]
      simp [Ideal.leaf, Ideal.new, List.getD, List.getElem?_eq_none (Nat.le_of_not_lt hi)]

/-! ## `init_tree_with_leaves` on the backends -/

theorem Full.init_refines (H : α → α → α) (dflt : α) (d : Nat) (vs : List α) :
    RefinesOutcome (Full.Rel H dflt) (Full.new H dflt d) (Ideal.new d)
      (Full.initTreeWithLeaves H dflt d vs) (Ideal.batch dflt (Ideal.new d) 0 vs []) :=
  Full.batch_rel H dflt _ _ 0 vs [] (Full.new_rel H dflt d)

theorem Full.init_leaves (H : α → α → α) (dflt : α) (d : Nat) (vs : List α) (hne : vs ≠ [])
    (hfit : vs.length ≤ 2 ^ d) :
    ∃ t', Full.initTreeWithLeaves H dflt d vs = .ok t' ∧ t'.next = vs.length ∧
      ∀ i, t'.get i = if i < 2 ^ d then .ok (vs.getD i dflt) else .err := by
  obtain ⟨s', hs, hd, hn, hl⟩ := Ideal.init_leaves dflt d vs hne hfit
  have r := Full.init_refines H dflt d vs
  rw [hs] at r
  obtain ⟨t', ht, hr⟩ := r.ok_right
  obtain ⟨_, o2, o3, _⟩ := Full.obs_eq H dflt t' s' hr
  refine ⟨t', ht, o2.trans hn, ?_⟩
  intro i
  rw [o3, hd, hl]

theorem Optimal.init_refines (M : Type) [MapLike M (Nat × Nat) α] [LawfulMapLike M (Nat × Nat) α]
    (H : α → α → α) (dflt : α) (d : Nat) (hd : 0 < d) (vs : List α) :
    RefinesOutcome (Optimal.Rel H dflt) (Optimal.new (M := M) H dflt d) (Ideal.new d)
      (Optimal.initTreeWithLeaves H dflt d vs) (Ideal.batch dflt (Ideal.new d) 0 vs []) :=
  Optimal.batch_rel M H dflt _ _ 0 vs [] (Optimal.new_rel M H dflt d hd)

theorem Optimal.init_leaves (M : Type) [MapLike M (Nat × Nat) α] [LawfulMapLike M (Nat × Nat) α]
    (H : α → α → α) (dflt : α) (d : Nat) (hd : 0 < d) (vs : List α) (hne : vs ≠ [])
    (hfit : vs.length ≤ 2 ^ d) :
    ∃ t', Optimal.initTreeWithLeaves (M := M) H dflt d vs = .ok t' ∧ t'.next = vs.length ∧
      ∀ i, t'.get i = if i < 2 ^ d then .ok (vs.getD i dflt) else .err := by
  obtain ⟨s', hs, hd', hn, hl⟩ := Ideal.init_leaves dflt d vs hne hfit
  have r := Optimal.init_refines M H dflt d hd vs
  rw [hs] at r
  obtain ⟨t', ht, hr⟩ := r.ok_right
  obtain ⟨_, o2, o3, _⟩ := Optimal.obs_eq M H dflt t' s' hr
  refine ⟨t', ht, o2.trans hn, ?_⟩
  intro i
  rw [o3, hd', hl]

end Zk.Tree
