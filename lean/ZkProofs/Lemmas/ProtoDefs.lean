import ZkModel.Public
import ZkModel.Tree.Ideal
/-!
# Statements proved about the byte codecs, the protocol functions and the verification / proving
glue (C01, C02, C03, C04, C10, C12, C13). Kept apart from the proofs.
-/
namespace Zk.Proto
open Zk Zk.Codec Zk.Protocol Zk.Public

/-- every field element of the witness is canonical and the two vectors have encodable lengths -/
def CanonW (w : Witness) : Prop :=
  w.identitySecret < P ∧ w.userMessageLimit < P ∧ w.messageId < P ∧ w.x < P ∧ w.externalNullifier < P ∧
  (∀ e ∈ w.pathElements, e < P) ∧ w.pathElements.length < 2 ^ 64 ∧ w.identityPathIndex.length < 2 ^ 64

def CanonV (v : ProofValues) : Prop :=
  v.y < P ∧ v.nullifier < P ∧ v.root < P ∧ v.x < P ∧ v.externalNullifier < P

/-! ## C10 — codecs -/

def FrRoundtripStmt : Prop :=
  ∀ v : Nat, v < P → (frToBytesLe v).length = 32 ∧ bytesLeToFr (frToBytesLe v) = .ok (v, 32)

/-- decoding never yields a non-canonical value, whatever the bytes -/
def FrDecodeCanonicalStmt : Prop :=
  ∀ (bs : List UInt8) (v n : Nat), bytesLeToFr bs = .ok (v, n) → v < P ∧ n = 32

def VecFrRoundtripStmt : Prop :=
  ∀ l : List Nat, (∀ e ∈ l, e < P) → l.length < 2 ^ 64 →
    (vecFrToBytesLe l).length = 8 + 32 * l.length ∧
    bytesLeToVecFr (vecFrToBytesLe l) = .ok (l, 8 + 32 * l.length)

def VecU8RoundtripStmt : Prop :=
  ∀ l : List UInt8, l.length < 2 ^ 64 →
    bytesLeToVecU8 (vecU8ToBytesLe l) = .ok (l, 8 + l.length)

def VecUsizeRoundtripStmt : Prop :=
  ∀ l : List Nat, (∀ e ∈ l, e < 2 ^ 64) → l.length < 2 ^ 64 →
    bytesLeToVecUsize (serializeVecUsize l) = .ok l

def WitnessRoundtripStmt : Prop :=
  ∀ w : Witness, CanonW w → w.messageId < w.userMessageLimit →
    ∃ bs, serializeWitness w = .ok bs ∧
      bs.length = 96 + (8 + 32 * w.pathElements.length) + (8 + w.identityPathIndex.length) + 64 ∧
      deserializeWitness bs = .ok (w, bs.length)

/-- a successful decode consumed exactly the whole input, whose length is determined by the two counts -/
def WitnessExactLengthStmt : Prop :=
  ∀ (bs : List UInt8) (w : Witness) (n : Nat), deserializeWitness bs = .ok (w, n) →
    n = bs.length ∧ bs.length = 96 + (8 + 32 * w.pathElements.length) + (8 + w.identityPathIndex.length) + 64 ∧
    w.messageId < w.userMessageLimit

/-- no encoding with trailing bytes and no truncated encoding decodes -/
def WitnessNoSlackStmt : Prop :=
  ∀ (bs : List UInt8) (w : Witness) (n : Nat), deserializeWitness bs = .ok (w, n) →
    (∀ extra : List UInt8, extra ≠ [] → deserializeWitness (bs ++ extra) = .err) ∧
    (∀ k : Nat, k < bs.length → deserializeWitness (bs.take k) = .err)

def WitnessDecodeTotalStmt : Prop :=
  ∀ bs : List UInt8, deserializeWitness bs ≠ .panic

def ProofValuesRoundtripStmt : Prop :=
  ∀ v : ProofValues, CanonV v →
    (serializeProofValues v).length = 160 ∧ deserializeProofValues (serializeProofValues v) = .ok (v, 160)

/-- the request layout read by `proof_inputs_to_rln_witness` is the one written by `prepare_prove_input` -/
def ProveInputRoundtripStmt : Prop :=
  ∀ (h2f : List UInt8 → Nat) (treeProof : Nat → Outcome (List (Nat × Nat))) (s i lim m e : Nat) (signal : List UInt8)
    (π : List (Nat × Nat)),
    s < P → lim < P → m < P → e < P → i < 2 ^ 64 → signal.length < 2 ^ 64 → treeProof i = .ok π →
    proofInputsToWitness h2f treeProof (prepareProveInput s i lim m e signal) =
      .ok ({ identitySecret := s, userMessageLimit := lim, messageId := m, pathElements := π.map (·.1),
             identityPathIndex := π.map (fun x => x.2.toUInt8), x := h2f signal, externalNullifier := e }, 144)

/-! ## C13 — untrusted verification input -/

def VerifyTotalStmt : Prop :=
  ∀ {Pr : Type} (Z : Snark Pr) (h2f : List UInt8 → Nat) (root : Nat) (bs rb : List UInt8),
    verify Z bs ≠ .panic ∧ verifyRlnProof Z h2f root bs ≠ .panic ∧ verifyWithRoots Z h2f bs rb ≠ .panic ∧
    recoverIdSecret bs rb ≠ .panic

/-- accepted messages carry canonical encodings of their five public values -/
def AcceptedCanonicalStmt : Prop :=
  ∀ {Pr : Type} (Z : Snark Pr) (h2f : List UInt8 → Nat) (root : Nat) (bs rb : List UInt8),
    (verify Z bs = .ok true → allCanonical 5 (bs.drop 128) = true) ∧
    (verifyRlnProof Z h2f root bs = .ok true → allCanonical 5 ((bs.drop 128).take 160) = true) ∧
    (verifyWithRoots Z h2f bs rb = .ok true → allCanonical 5 ((bs.drop 128).take 160) = true)

/-- one encoding: two canonical 160-byte blocks that decode to the same five values are equal -/
def UniqueEncodingStmt : Prop :=
  ∀ (b1 b2 : List UInt8) (v : ProofValues), b1.length = 160 → b2.length = 160 →
    allCanonical 5 b1 = true → allCanonical 5 b2 = true →
    deserializeProofValues b1 = .ok (v, 160) → deserializeProofValues b2 = .ok (v, 160) → b1 = b2

/-- a `v + k·p` alias (any chunk at or above the field order) is never accepted -/
def AliasRejectedStmt : Prop :=
  ∀ {Pr : Type} (Z : Snark Pr) (h2f : List UInt8 → Nat) (root : Nat) (bs rb : List UInt8) (j : Nat), j < 5 →
    leNat (((bs.drop (128 + 32 * j)).take 32)) ≥ P →
    verify Z bs ≠ .ok true ∧ verifyRlnProof Z h2f root bs ≠ .ok true ∧ verifyWithRoots Z h2f bs rb ≠ .ok true

/-! ## C02 — what acceptance implies -/

def VerifySoundStmt : Prop :=
  ∀ {Pr : Type} (Z : Snark Pr) (bs : List UInt8), verify Z bs = .ok true →
    ∃ proof v, bs.length = 288 ∧ Z.decode (bs.take 128) = some proof ∧
      deserializeProofValues (bs.drop 128) = .ok (v, 160) ∧ Z.verify proof (publicInputs v) = some true

def VerifyRlnSoundStmt : Prop :=
  ∀ {Pr : Type} (Z : Snark Pr) (h2f : List UInt8 → Nat) (root : Nat) (bs : List UInt8),
    verifyRlnProof Z h2f root bs = .ok true →
    ∃ proof v signal, Z.decode (bs.take 128) = some proof ∧
      deserializeProofValues (bs.drop 128) = .ok (v, 160) ∧
      bs = bs.take 288 ++ natLE 8 signal.length ++ signal ∧ signal.length < 2 ^ 64 ∧
      Z.verify proof (publicInputs v) = some true ∧ v.x = h2f signal ∧ v.root = root

def VerifyRootsSoundStmt : Prop :=
  ∀ {Pr : Type} (Z : Snark Pr) (h2f : List UInt8 → Nat) (bs rb : List UInt8),
    verifyWithRoots Z h2f bs rb = .ok true →
    ∃ proof v signal, Z.decode (bs.take 128) = some proof ∧
      deserializeProofValues (bs.drop 128) = .ok (v, 160) ∧
      bs = bs.take 288 ++ natLE 8 signal.length ++ signal ∧
      Z.verify proof (publicInputs v) = some true ∧ v.x = h2f signal ∧
      rb.length % 32 = 0 ∧
      (rb = [] ∨ ∃ k, k < rb.length / 32 ∧ leNat ((rb.drop (32 * k)).take 32) % P = v.root)

/-- the exact verdict of the three entry points in terms of the decoded parts (used for the
    tampering corollaries): whenever the input is well-formed the result is the conjunction -/
def VerifyRlnExactStmt : Prop :=
  ∀ {Pr : Type} (Z : Snark Pr) (h2f : List UInt8 → Nat) (root : Nat) (pb : List UInt8) (v : ProofValues)
    (signal : List UInt8) (proof : Pr) (b : Bool),
    pb.length = 128 → CanonV v → signal.length < 2 ^ 64 → Z.decode pb = some proof →
    Z.verify proof (publicInputs v) = some b →
    verifyRlnProof Z h2f root (prepareVerifyInput (pb ++ serializeProofValues v) signal) =
      .ok (b && decide (root = v.root) && decide (h2f signal = v.x))

def VerifyRootsExactStmt : Prop :=
  ∀ {Pr : Type} (Z : Snark Pr) (h2f : List UInt8 → Nat) (roots : List Nat) (pb : List UInt8) (v : ProofValues)
    (signal : List UInt8) (proof : Pr) (b : Bool),
    pb.length = 128 → CanonV v → signal.length < 2 ^ 64 → Z.decode pb = some proof →
    Z.verify proof (publicInputs v) = some b → (∀ r ∈ roots, r < P) →
    verifyWithRoots Z h2f (prepareVerifyInput (pb ++ serializeProofValues v) signal) (roots.map frToBytesLe).flatten =
      .ok (b && decide (h2f signal = v.x) && (roots.isEmpty || roots.contains v.root))

/-! ## C04 — published values -/

def ProofValuesSpecStmt : Prop :=
  ∀ (H : List Nat → Nat) (w : Witness), w.messageId < w.userMessageLimit →
    w.identityPathIndex.length ≤ w.pathElements.length →
    proofValuesFromWitness H w = .ok (specProofValues H w)

def ProofValuesRejectStmt : Prop :=
  ∀ (H : List Nat → Nat) (w : Witness),
    (w.messageId ≥ w.userMessageLimit → proofValuesFromWitness H w = .err) ∧
    (w.messageId < w.userMessageLimit → w.identityPathIndex.length > w.pathElements.length →
      proofValuesFromWitness H w = .panic)

/-! ## C03 — secret recovery (field facts need `P` prime) -/

/-- two shares of the same line with different `x` recover the secret -/
def RecoverSecretStmt : Prop :=
  ∀ s a x1 x2 : Nat, s < P → a < P → x1 < P → x2 < P → x1 ≠ x2 →
    computeIdSecret x1 (fadd s (fmul x1 a)) x2 (fadd s (fmul x2 a)) = .ok s

def RecoverDegenerateStmt : Prop :=
  ∀ x y1 y2 : Nat, computeIdSecret x y1 x y2 = .err

/-- the nullifier (and the share slope) do not depend on the signal hash `x` -/
def NullifierSignalFreeStmt : Prop :=
  ∀ (H : List Nat → Nat) (w : Witness) (x' : Nat) (v v' : ProofValues),
    proofValuesFromWitness H w = .ok v → proofValuesFromWitness H { w with x := x' } = .ok v' →
    v.nullifier = v'.nullifier ∧ v.root = v'.root ∧ v.externalNullifier = v'.externalNullifier

/-- end to end on message encodings: two messages of one identity in one epoch / message id with
    different signal hashes give back the secret; different external nullifiers give nothing -/
def RecoverFromMessagesStmt : Prop :=
  ∀ (H : List Nat → Nat) (w : Witness) (x' : Nat) (v v' : ProofValues) (pb pb' : List UInt8),
    (∀ l, H l < P) → CanonW w → x' < P → w.x ≠ x' → pb.length = 128 → pb'.length = 128 →
    proofValuesFromWitness H w = .ok v → proofValuesFromWitness H { w with x := x' } = .ok v' →
    recoverIdSecret (pb ++ serializeProofValues v) (pb' ++ serializeProofValues v') = .ok (frToBytesLe w.identitySecret)

def RecoverDifferentEpochStmt : Prop :=
  ∀ (v v' : ProofValues) (pb pb' : List UInt8), CanonV v → CanonV v' → pb.length = 128 → pb'.length = 128 →
    v.externalNullifier ≠ v'.externalNullifier →
    recoverIdSecret (pb ++ serializeProofValues v) (pb' ++ serializeProofValues v') = .ok []

/-- distinct (external nullifier, message id) with equal nullifiers exhibit a Poseidon collision -/
def NullifierCollisionStmt : Prop :=
  ∀ (H : List Nat → Nat) (s e m e' m' : Nat), (e, m) ≠ (e', m') →
    H [H [s, e, m]] = H [H [s, e', m']] →
    ∃ l l' : List Nat, l ≠ l' ∧ H l = H l'

/-! ## C12 / C01 — proving glue -/

/-- the prover contract: on a satisfiable witness Groth16 yields a proof that verifies for the
    public values of the circuit (= `specProofValues`, C04/C05) and survives its own codec -/
structure Complete {Pr : Type} (Z : Snark Pr) (Pv : Prover Pr) (H : List Nat → Nat) (depth : Nat) : Prop where
  proves : ∀ w, CircuitSat depth w → ∃ p, Pv.prove w = some p ∧
    Z.verify p (publicInputs (specProofValues H w)) = some true
  codec : ∀ p, (Z.encode p).length = 128 ∧ Z.decode (Z.encode p) = some p

/-- the shapes in which the software checks accept a request that the circuit cannot satisfy
    (open finding C12-unsat-accepted) -/
def OpenUnsat (w : Witness) : Prop :=
  w.messageId ≥ 2 ^ 16 ∨ w.userMessageLimit > w.messageId + 2 ^ 16 ∨ ∃ b ∈ w.identityPathIndex, b ≠ 0 ∧ b ≠ 1

/-- a successful proving call had a circuit-satisfiable witness, outside the open shapes -/
def ProverOkSatStmt : Prop :=
  ∀ {Pr : Type} (Z : Snark Pr) (Pv : Prover Pr) (H : List Nat → Nat) (depth : Nat) (bs msg : List UInt8),
    generateRlnProofWithWitness Z Pv H depth bs = .ok msg →
    ∃ w n, deserializeWitness bs = .ok (w, n) ∧ (CircuitSat depth w ∨ OpenUnsat w)

/-- the only crash of the proving entry points is the input-length assertion of the witness
    calculator (open finding C12-path-length-panic) -/
def ProverPanicStmt : Prop :=
  ∀ {Pr : Type} (Z : Snark Pr) (Pv : Prover Pr) (H : List Nat → Nat) (depth : Nat) (bs : List UInt8),
    (generateRlnProofWithWitness Z Pv H depth bs = .panic ∨ Public.prove Z Pv depth bs = .panic) →
    ∃ w n, deserializeWitness bs = .ok (w, n) ∧
      (w.pathElements.length ≠ depth ∨ w.identityPathIndex.length ≠ depth)

/-- C01: a request for a registered identity inside the circuit's range proves, and the message
    verifies against the same root and against a root set containing it -/
def ProveThenVerifyStmt : Prop :=
  ∀ {Pr : Type} (Z : Snark Pr) (Pv : Prover Pr) (H : List Nat → Nat) (h2f : List UInt8 → Nat) (depth : Nat)
    (treeProof : Nat → Outcome (List (Nat × Nat))) (root : Nat)
    (s i lim m e : Nat) (signal : List UInt8) (π : List (Nat × Nat)),
    Complete Z Pv H depth → (∀ l, H l < P) → (∀ b, h2f b < P) →
    s < P → lim < P → e < P → i < 2 ^ 64 → signal.length < 2 ^ 64 →
    m < lim → m < 2 ^ 16 → lim ≤ m + 2 ^ 16 →
    treeProof i = .ok π → π.length = depth → (∀ x ∈ π, x.2 = 0 ∨ x.2 = 1) →
    Tree.Ideal.computeRoot (fun a b => H [a, b]) (H [H [s], lim]) π = root →
    ∃ msg, generateRlnProof Z Pv H h2f depth treeProof (prepareProveInput s i lim m e signal) = .ok msg ∧
      msg.length = 288 ∧
      verify Z msg = .ok true ∧
      verifyRlnProof Z h2f root (prepareVerifyInput msg signal) = .ok true ∧
      verifyWithRoots Z h2f (prepareVerifyInput msg signal) (frToBytesLe root) = .ok true ∧
      verifyWithRoots Z h2f (prepareVerifyInput msg signal) [] = .ok true

end Zk.Proto
