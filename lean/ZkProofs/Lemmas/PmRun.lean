import ZkProofs.Lemmas.TreeRun
import ZkProofs.Lemmas.PmProofs
/-!
# Histories on the persistent tree (pmtree + adapter), no storage failure injected

`Pm.applyOp` is the adapter call for a `TreeOp`; `Pm.step` is the state the call leaves behind
(whatever its result), `Pm.stepOut` whether it returned `Ok`. `reset` is a fresh `Pm.new` on an
empty store. The batch with a non-empty removal list is not covered (open finding C08-pm-batch):
the history theorems assume `PmCovered`.
-/
namespace Zk.Tree

variable {α : Type} [Inhabited α] {D : Type} [MapLike D PmKey (PmVal α)]

/-- the operations for which the persistent backend is shown to refine the specification -/
def TreeOp.pmCovered : TreeOp α → Prop
  | .batch _ _ rem => rem = []
  | _ => True

/-- no batch with a non-empty removal list in the history -/
def PmCovered (ops : List (TreeOp α)) : Prop := ∀ op ∈ ops, op.pmCovered

def Pm.applyOp (S : Type) [MapLike S (Nat × Nat) α] (H : α → α → α) (dflt : α) (t : Pm α D) :
    TreeOp α → Pm α D × Outcome Unit
  | .set i v => Pm.set H i v t
  | .delete i => Pm.delete H dflt i t
  | .append v => Pm.updateNext H v t
  | .setRange start vs => Pm.setRange S H start vs t
  | .batch start vs rem => Pm.overrideRange S H dflt start vs rem t
  | .reset => Pm.new H dflt t.depth { kv := MapLike.empty }

/-- the state after the call, whatever it returned -/
def Pm.step (S : Type) [MapLike S (Nat × Nat) α] (H : α → α → α) (dflt : α) (t : Pm α D)
    (op : TreeOp α) : Pm α D :=
  (Pm.applyOp S H dflt t op).1

def Pm.stepOut (S : Type) [MapLike S (Nat × Nat) α] (H : α → α → α) (dflt : α) (t : Pm α D)
    (op : TreeOp α) : Bool :=
  (Pm.applyOp S H dflt t op).2.isOk

/-- a history from the freshly created tree on an empty store -/
def Pm.run (S : Type) [MapLike S (Nat × Nat) α] (H : α → α → α) (dflt : α) (d : Nat)
    (ops : List (TreeOp α)) : Pm α D :=
  ops.foldl (Pm.step S H dflt) (Pm.new H dflt d { kv := MapLike.empty }).1

/-! ## lifting the per-operation lemmas -/

theorem PmRefines.keep {H : α → α → α} {dflt : α} {t : Pm α D} {s : Ideal α}
    {r : Pm α D × Outcome Unit} {os : Outcome (Ideal α)} (h : PmRefines H dflt t s r os) :
    Pm.Rel H dflt r.1 (keepOk s os) ∧ r.2.isOk = os.isOk ∧ r.2 ≠ .panic := by
  obtain ⟨r1, r2⟩ := r
  cases r2 <;> cases os <;> simp [PmRefines, keepOk, Outcome.isOk] at h ⊢ <;> exact h

section
variable [LawfulMapLike D PmKey (PmVal α)] (S : Type) [MapLike S (Nat × Nat) α]
  [LawfulMapLike S (Nat × Nat) α] (H : α → α → α) (dflt : α)

theorem Pm.step_rel {t : Pm α D} {s : Ideal α} (h : Pm.Rel H dflt t s) (op : TreeOp α)
    (hc : op.pmCovered) : Pm.Rel H dflt (Pm.step S H dflt t op) (Ideal.step dflt s op) := by
  cases op with
  | set i v => exact (Pm.set_rel D H dflt t s i v h).keep.1
  | delete i => exact (Pm.delete_rel D H dflt t s i h).2
  | append v => exact (Pm.append_rel D H dflt t s v h).keep.1
  | setRange start vs =>
    cases vs with
    | nil => rw [Ideal.step_setRange_nil]; exact h
    | cons v r => exact (Pm.setRange_rel D S H dflt t s start (v :: r) h (by simp)).keep.1
  | batch start vs rem =>
    have hc' : rem = [] := hc
    subst hc'
    exact (Pm.batch_rel_partial D S H dflt t s start vs h).keep.1
  | reset =>
    show Pm.Rel H dflt (Pm.new H dflt t.depth { kv := MapLike.empty }).1 (Ideal.new s.depth)
    rw [← h.depth]
    exact (Pm.new_rel D H dflt t.depth h.inv.depth_pos).2

theorem Pm.foldl_rel (ops : List (TreeOp α)) : ∀ (t : Pm α D) (s : Ideal α), Pm.Rel H dflt t s →
    PmCovered ops →
    Pm.Rel H dflt (ops.foldl (Pm.step S H dflt) t) (ops.foldl (Ideal.step dflt) s) := by
  induction ops with
  | nil => intro t s h _; exact h
  | cons op r ih =>
    intro t s h hc
    exact ih _ _ (Pm.step_rel S H dflt h op (hc op List.mem_cons_self))
      (fun o ho => hc o (List.mem_cons_of_mem _ ho))

theorem Pm.run_rel (d : Nat) (hd : 0 < d) (ops : List (TreeOp α)) (hc : PmCovered ops) :
    Pm.Rel H dflt (Pm.run (D := D) S H dflt d ops) (Ideal.run dflt d ops) :=
  Pm.foldl_rel S H dflt ops _ _ (Pm.new_rel D H dflt d hd).2 hc

omit [Inhabited α] in
theorem Pm.computeRootFrom_eq (p : List (α × Nat)) : ∀ lf : α,
    Pm.computeRootFrom H lf p = Ideal.computeRoot H lf p := by
  induction p with
  | nil => intro lf; rfl
  | cons x r ih => intro lf; obtain ⟨s, b⟩ := x; simp only [Pm.computeRootFrom, Ideal.computeRoot, ih]

theorem Pm.proof_complete_of_rel [BEq α] [LawfulBEq α] {t : Pm α D} {s : Ideal α}
    (h : Pm.Rel H dflt t s) (i : Nat) (hi : i < 2 ^ s.depth) :
    ∃ π, t.proof i = .ok π ∧ t.get i = .ok (s.leaf dflt i) ∧ π.length = s.depth ∧
      π.foldr (fun x acc => 2 * acc + x.2) 0 = i ∧ (∀ x ∈ π, x.2 = 0 ∨ x.2 = 1) ∧
      Pm.computeRootFrom H (s.leaf dflt i) π = t.root ∧
      Pm.verify H t (s.leaf dflt i) π = .ok true := by
  obtain ⟨hroot, _, hget, _, _, hproof⟩ := Pm.obs_eq D H dflt t s h
  obtain ⟨hlen, hdec, hbits, hcr⟩ := Ideal.proof_complete H dflt s i hi
  have hc : Pm.computeRootFrom H (s.leaf dflt i) (s.proof H dflt i) = t.root := by
    rw [Pm.computeRootFrom_eq, hcr, hroot]
  refine ⟨s.proof H dflt i, ?_, ?_, hlen, hdec, hbits, hc, ?_⟩
  · rw [hproof, if_pos hi]
  · rw [hget, if_pos hi]
  · unfold Pm.verify
    rw [hc]
    simp

end

end Zk.Tree
