import ZkProofs.Lemmas.TreeDefs
import ZkProofs.Lemmas.OptimalLemmas
/-!
# The sparse-map Merkle tree (`OptimalMerkleTree`) refines the ideal hash tree

Proofs of the `Optimal.…Stmt` statements of `TreeDefs.lean`, for every lawful map `M`.
The loop of `update_hashes` is handled in `OptimalLemmas.lean` (`LoopInv`, `updateHashes_post`).
-/
namespace Zk.Tree

variable {α : Type} [Inhabited α] (M : Type) [MapLike M (Nat × Nat) α] [LawfulMapLike M (Nat × Nat) α]
  (H : α → α → α) (dflt : α)

/-! ## `new` -/

theorem Optimal.new_rel : Optimal.NewStmt M H dflt := by
  intro d hd
  refine ⟨⟨?_, ?_, ?_, hd, ?_⟩, rfl, rfl, ?_, ?_⟩
  · show (Optimal.mkCached H dflt d [dflt]).toArray.size = d + 1
    have := (Optimal.mkCached_spec H dflt d 0 [dflt] rfl (by
      intro j hj
      have : j = 0 := by omega
      subst this
      rfl)).1
    simpa using this
  · show (Array.replicate (2 ^ d) 0).size = 2 ^ d
    simp
  · exact Nat.zero_le _
  · intro l i hl hi
    have hl' : l < d := hl
    rw [Optimal.new_getNode H dflt d l i (by omega), Optimal.new_getNode H dflt d (l + 1) _ (by omega),
        Optimal.new_getNode H dflt d (l + 1) _ (by omega)]
    have e : d - l = (d - (l + 1)) + 1 := by omega
    rw [e]
    rfl
  · intro i hi
    show (Optimal.new (M := M) H dflt d).getNode d i = _
    rw [Optimal.new_getNode H dflt d d i (Nat.le_refl _), Nat.sub_self]
    rfl
  · intro i hi
    have hi' : i < 2 ^ d := hi
    show (Array.replicate (2 ^ d) 0)[i]! = 0 ↔ _
    have : (Array.replicate (2 ^ d) 0)[i]! = 0 := by
      rw [Array.getElem!_eq_getD, Array.getD_eq_getD_getElem?]
      simp [hi']
    simp only [this, true_iff]
    rfl

/-! ## Observables -/

theorem Optimal.obs_eq : Optimal.ObsStmt M H dflt := by
  intro t s h
  have hd := h.depth
  have hpos := Nat.two_pow_pos s.depth
  refine ⟨?_, h.next, ?_, ?_, ?_, ?_⟩
  · exact h.getNode_eq 0 0 (Nat.zero_le _) (by simp)
  · intro i
    unfold Optimal.get Optimal.cap
    rw [hd]
    by_cases hi : i < 2 ^ s.depth
    · rw [if_neg (by omega), if_pos hi]
      have := h.leaves i (by rw [hd]; exact hi)
      rw [hd] at this
      rw [this]
    · rw [if_pos (by omega), if_neg hi]
  · intro l i
    unfold Optimal.getSubtreeRoot Optimal.get Optimal.cap Optimal.root
    rw [hd]
    by_cases hl : l > s.depth
    · rw [if_pos hl, if_pos (Or.inl hl)]
    · rw [if_neg hl]
      by_cases hi : i ≥ 2 ^ s.depth
      · rw [if_pos hi, if_pos (Or.inr hi)]
      · rw [if_neg hi, if_neg (show ¬(l > s.depth ∨ i ≥ 2 ^ s.depth) by omega)]
        have hdiv : i / 2 ^ (s.depth - l) < 2 ^ l := by
          rw [Nat.div_lt_iff_lt_mul (Nat.two_pow_pos _), ← Nat.pow_add]
          have : l + (s.depth - l) = s.depth := by omega
          rw [this]; omega
        by_cases hl0 : l = 0
        · subst hl0
          rw [if_pos rfl]
          have : i / 2 ^ (s.depth - 0) = 0 := by
            rw [Nat.sub_zero]
            exact Nat.div_eq_of_lt (by omega)
          rw [this, h.getNode_eq 0 0 (Nat.zero_le _) (by simp)]
        · rw [if_neg hl0]
          by_cases hld : l = s.depth
          · subst hld
            rw [if_pos rfl, if_neg hi]
            rw [h.getNode_eq s.depth i (Nat.le_refl _) (by omega)]
            simp
          · rw [if_neg hld, h.getNode_eq l _ (by omega) hdiv]
  · unfold Optimal.emptyIdx Ideal.emptyIdx
    have hn := h.inv.next_le
    have hf := h.inv.fsize
    rw [hf, Nat.min_eq_left hn, h.next]
    apply List.filter_congr
    intro i hi
    rw [List.mem_range] at hi
    have := h.flags i (by rw [← h.next] at hi; omega)
    by_cases hc : t.flags[i]! = 0
    · rw [hc, this.1 hc]; rfl
    · have h2 : ¬ (List.lookup i s.live).getD false = false := fun e => hc (this.2 e)
      have e1 : (t.flags[i]! == 0) = false := by simpa using hc
      have e2 : ((List.lookup i s.live).getD false == false) = false := by simpa using h2
      rw [e1, e2]
  · intro i
    unfold Optimal.proof Optimal.cap Ideal.proof
    rw [hd]
    by_cases hi : i < 2 ^ s.depth
    · rw [if_neg (by omega), if_pos hi, h.proofAux_eq s.depth i (Nat.le_refl _) hi]
    · rw [if_pos (by omega), if_neg hi]

/-! ## Single-leaf writes -/

/-- common core of `set` and `delete`: write leaf `i`, re-hash, then any flag array that differs
    from the old one only at `i` in the way the ideal `live` list does -/
theorem Optimal.set_core {t : Optimal α M} {s : Ideal α} (h : Optimal.Rel H dflt t s) (i : Nat) (v : α)
    (hi : i < 2 ^ t.depth) (t1 : Optimal α M)
    (ht1 : t1 = { t with nodes := MapLike.insert t.nodes (t.depth, i) v }) :
    (Optimal.updateHashes H t1 i 1).flags = t.flags ∧
    ∀ (s' : Ideal α) (b : Nat) (lb : Bool) (fl : Array Nat),
      s'.depth = s.depth → s'.writes = (i, v) :: s.writes → s'.live = (i, lb) :: s.live →
      s'.next = max s.next (i + 1) → (b = 0 ↔ lb = false) → fl.size = 2 ^ t.depth →
      (∀ j, j < 2 ^ t.depth → fl[j]! = if j = i then b else t.flags[j]!) →
      Optimal.Rel H dflt
        ⟨(Optimal.updateHashes H t1 i 1).depth, (Optimal.updateHashes H t1 i 1).cached,
         (Optimal.updateHashes H t1 i 1).nodes, fl, max t.next (i + 1)⟩ s' := by
  have hg : ∀ l j, t1.getNode l j = if (t.depth, i) = (l, j) then v else t.getNode l j := by
    rw [ht1]; exact Optimal.getNode_insert t _ v
  have hd1 : t1.depth = t.depth := by rw [ht1]
  have hc1 : t1.cached = t.cached := by rw [ht1]
  have hf1 : t1.flags = t.flags := by rw [ht1]
  have hp : Optimal.Post H t1 (Optimal.updateHashes H t1 i 1) := by
    apply h.update_post t1 i 1 hd1
    · intro l j hl
      rw [hg, if_neg (by intro e; simp only [Prod.mk.injEq] at e; omega)]
    · intro j hj
      rw [hg, if_neg (by intro e; simp only [Prod.mk.injEq] at e; omega)]
    · omega
    · omega
  refine ⟨by rw [hp.flags, hf1], ?_⟩
  intro s' b lb fl hsd hw hl hn hb hfs hfl
  have hnl := h.inv.next_le
  apply h.of_post hp s' _ fl hd1 hc1 hsd
  · rw [hn, h.next]
  · omega
  · exact hfs
  · intro j hj
    rw [hg, Ideal.leaf_cons dflt s s' i j v hw]
    by_cases hji : j = i
    · subst hji; simp
    · rw [if_neg (by intro e; simp only [Prod.mk.injEq] at e; omega), if_neg hji]
      exact h.leaves j hj
  · intro j hj
    rw [hfl j hj, hl, Optimal.live_cons_getD]
    by_cases hji : j = i
    · subst hji; simpa using hb
    · rw [if_neg hji, if_neg hji]
      exact h.flags j hj

theorem Optimal.set_rel : Optimal.SetStmt M H dflt := by
  intro t s i v h
  unfold Optimal.set Ideal.set Optimal.cap Ideal.cap
  have hd := h.depth
  by_cases hi : i < 2 ^ t.depth
  · rw [if_neg (by omega), if_pos (by rw [← hd]; exact hi)]
    obtain ⟨hfl, hcore⟩ := Optimal.set_core M H dflt h i v hi _ rfl
    have hfs := h.inv.fsize
    exact hcore _ 1 true _ rfl rfl rfl rfl (by simp)
      (by rw [Array.size_setIfInBounds, hfl]; exact hfs)
      (fun j hj => by rw [hfl, Optimal.flags_set _ _ _ _ (by omega)])
  · rw [if_pos (by omega), if_neg (by rw [← hd]; exact hi)]
    exact h

theorem Optimal.append_rel : Optimal.AppendStmt M H dflt := by
  intro t s v h
  unfold Optimal.updateNext Ideal.append
  rw [h.next]
  exact Optimal.set_rel M H dflt t s s.next v h

theorem Optimal.delete_rel : Optimal.DeleteStmt M H dflt := by
  intro t s i h
  unfold Optimal.delete Ideal.delete
  have hd := h.depth
  have hnl := h.inv.next_le
  by_cases hi : i < t.next
  · rw [if_pos hi, if_pos (by rw [← h.next]; exact hi)]
    unfold Optimal.set Optimal.cap
    rw [if_neg (by omega)]
    refine ⟨_, rfl, ?_⟩
    obtain ⟨hfl, hcore⟩ := Optimal.set_core M H dflt h i dflt (by omega) _ rfl
    have hfs := h.inv.fsize
    have hmax : max s.next (i + 1) = s.next := by rw [← h.next]; omega
    exact hcore _ 0 false _ rfl rfl rfl hmax.symm (by simp)
      (by rw [Array.size_setIfInBounds, Array.size_setIfInBounds, hfl]; exact hfs)
      (fun j hj => by
        simp only
        rw [Optimal.flags_set _ _ _ _ (by rw [Array.size_setIfInBounds, hfl]; omega),
            Optimal.flags_set _ _ _ _ (by rw [hfl]; omega), hfl]
        by_cases hji : j = i
        · rw [if_pos hji, if_pos hji]
        · rw [if_neg hji, if_neg hji, if_neg hji])
  · rw [if_neg hi, if_neg (by rw [← h.next]; exact hi)]
    exact ⟨t, rfl, h⟩

/-! ## Range writes -/

theorem Optimal.setRange_rel : Optimal.SetRangeStmt M H dflt := by
  intro t s start vs h
  unfold Optimal.setRange Ideal.setRange Optimal.cap Ideal.cap
  have hd := h.depth
  by_cases hfit : start + vs.length ≤ 2 ^ t.depth
  · rw [if_neg (show ¬ start + vs.length > 2 ^ t.depth by omega),
        if_pos (show start + vs.length ≤ 2 ^ s.depth by rw [← hd]; exact hfit)]
    by_cases hlen : vs.length = 0
    · rw [if_pos hlen]
      have : vs = [] := List.eq_nil_of_length_eq_zero hlen
      subst this
      exact h
    · rw [if_neg hlen]
      obtain ⟨i1, i2, i3, i4, i5, i6⟩ := Optimal.insertLeaves_spec dflt vs t s start h.lrel hfit
      have hp := h.update_post (Optimal.insertLeaves t start vs) start vs.length i1 i4 i5 (by omega) hfit
      have hne : vs.isEmpty = false := by
        cases vs with
        | nil => exact absurd rfl hlen
        | cons a r => rfl
      have hnl := h.inv.next_le
      have hn := h.next
      simp only [hne]
      exact h.of_post hp _ _ _ i1 i2 (Ideal.writeMany_depth s start vs)
        (by show max t.next (start + vs.length) = max s.next (start + vs.length); rw [hn])
        (by omega)
        (by rw [hp.flags, i6.fsize, i1])
        (fun j hj => by
          have := i6.leaves j (by rw [i1]; exact hj)
          rw [i1] at this
          exact this)
        (fun j hj => by
          have := i6.flags j (by rw [i1]; exact hj)
          rw [hp.flags]
          exact this)
  · rw [if_pos (show start + vs.length > 2 ^ t.depth by omega),
        if_neg (show ¬ start + vs.length ≤ 2 ^ s.depth by rw [← hd]; exact hfit)]
    exact h

theorem Optimal.deleteMany_rel :
    ∀ (rem : List Nat) (t : Optimal α M) (s : Ideal α), Optimal.Rel H dflt t s →
      ∃ t', Optimal.deleteMany H dflt t rem = .ok t' ∧ Optimal.Rel H dflt t' (Ideal.removeMany dflt s rem)
  | [], t, s, h => ⟨t, rfl, h⟩
  | i :: r, t, s, h => by
    obtain ⟨t1, e, h1⟩ := Optimal.delete_rel M H dflt t s i h
    unfold Optimal.deleteMany Ideal.removeMany
    rw [e]
    exact Optimal.deleteMany_rel r t1 _ h1

theorem Optimal.batch_rel : Optimal.BatchStmt M H dflt := by
  intro t s start vs rem h
  unfold Optimal.overrideRange Ideal.batch Optimal.cap Ideal.cap
  have hd := h.depth
  rw [hd]
  by_cases c1 : vs.isEmpty = true ∧ rem.isEmpty = true
  · rw [if_pos c1, if_pos (Or.inr (Or.inr c1))]
    exact h
  · rw [if_neg c1]
    by_cases c2 : start + vs.length > 2 ^ s.depth
    · rw [if_pos c2, if_pos (Or.inl c2)]
      exact h
    · rw [if_neg c2]
      by_cases c3 : (rem.any fun i => decide (i ≥ 2 ^ s.depth)) = true
      · rw [if_pos c3, if_pos (Or.inr (Or.inl c3))]
        exact h
      · rw [if_neg c3, if_neg (by
          intro hc
          rcases hc with hc | hc | hc
          · exact c2 hc
          · exact c3 hc
          · exact c1 hc)]
        obtain ⟨t1, e, h1⟩ := Optimal.deleteMany_rel M H dflt rem t s h
        rw [e]
        have key := Optimal.setRange_rel M H dflt t1 (Ideal.removeMany dflt s rem) start vs h1
        have hs : Ideal.setRange (Ideal.removeMany dflt s rem) start vs =
            .ok { (Ideal.removeMany dflt s rem).writeMany start vs with
                  next := if vs.isEmpty then s.next else max s.next (start + vs.length) } := by
          unfold Ideal.setRange Ideal.cap
          rw [Ideal.removeMany_depth, Ideal.removeMany_next, if_pos (by omega)]
        rw [hs] at key
        simp only
        cases hset : Optimal.setRange H t1 start vs with
        | ok a => rw [hset] at key; exact key
        | err => rw [hset] at key; exact key.elim
        | panic => rw [hset] at key; exact key.elim

end Zk.Tree
