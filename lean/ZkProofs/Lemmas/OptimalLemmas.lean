import ZkProofs.Lemmas.TreeDefs
/-!
# Helper lemmas for the sparse-map Merkle tree (`OptimalMerkleTree`)

* reading a node after an insertion (`getNode_insert`),
* the loop invariant of `update_hashes` (`LoopInv`) and its consequence `updateHashes_post`:
  after `update_hashes(index, length)` every inner node is again the hash of its children,
  leaves and bookkeeping fields are untouched.
-/
namespace Zk.Tree

variable {α : Type} [Inhabited α] {M : Type} [MapLike M (Nat × Nat) α] [LawfulMapLike M (Nat × Nat) α]

set_option linter.unusedSectionVars false

namespace Optimal

theorem getNode_insert (t : Optimal α M) (k : Nat × Nat) (v : α) (l i : Nat) :
    getNode { t with nodes := MapLike.insert t.nodes k v } l i
      = if k = (l, i) then v else getNode t l i := by
  unfold getNode
  simp only [LawfulMapLike.get?_insert]
  by_cases h : k = (l, i)
  · simp only [if_pos h]
  · simp only [if_neg h]

/-- node `(l, i)` reads as the hash of its two children -/
def ConsAt (H : α → α → α) (t : Optimal α M) (l i : Nat) : Prop :=
  t.getNode l i = H (t.getNode (l + 1) (2 * i)) (t.getNode (l + 1) (2 * i + 1))

/-- what `update_hashes` guarantees about its result `r` when started on `t` -/
structure Post (H : α → α → α) (t r : Optimal α M) : Prop where
  depth : r.depth = t.depth
  cached : r.cached = t.cached
  flags : r.flags = t.flags
  next : r.next = t.next
  leaves : ∀ i, r.getNode t.depth i = t.getNode t.depth i
  cons : ∀ l i, l < t.depth → i < 2 ^ l → ConsAt H r l i

/-- Loop invariant of `update_hashes`. `g` is the node function of the tree before the leaves were
    written (consistent everywhere). At parent level `pd` with range `[lo, hi)` and cursor `pi`:
    * `A`: all levels strictly between `pd` and the leaves are consistent,
    * `B`: parents `lo … pi-1` on level `pd` are consistent,
    * `U`: level `pd` outside `[lo, pi)` and all levels above still hold their old values,
    * `Dd`: on level `pd+1` only nodes in `[2 lo, 2 hi)` may differ from the old values. -/
structure LoopInv (H : α → α → α) (g : Nat → Nat → α) (s : Loop α M) : Prop where
  pd_lt : s.parentDepth < s.t.depth
  cd : s.currentDepth = s.parentDepth + 1
  lo_le : s.parentIndexBak ≤ s.parentIndex
  pi_lt : s.parentIndex < s.parentMaxIndex
  hi_le : s.parentMaxIndex ≤ 2 ^ s.parentDepth
  cib : s.currentIndexBak / 2 = s.parentIndexBak
  ci : s.currentIndex = s.currentIndexBak + 2 * (s.parentIndex - s.parentIndexBak)
  gcons : ∀ l i, l < s.t.depth → i < 2 ^ l → g l i = H (g (l + 1) (2 * i)) (g (l + 1) (2 * i + 1))
  A : ∀ l i, s.parentDepth < l → l < s.t.depth → i < 2 ^ l → ConsAt H s.t l i
  B : ∀ i, s.parentIndexBak ≤ i → i < s.parentIndex → ConsAt H s.t s.parentDepth i
  U : ∀ l i, (l < s.parentDepth ∨ (l = s.parentDepth ∧ (i < s.parentIndexBak ∨ s.parentIndex ≤ i))) →
        s.t.getNode l i = g l i
  Dd : ∀ j, (j < 2 * s.parentIndexBak ∨ 2 * s.parentMaxIndex ≤ j) →
        s.t.getNode (s.parentDepth + 1) j = g (s.parentDepth + 1) j

/-- the tree after one loop iteration's insertion -/
def stepTree (H : α → α → α) (s : Loop α M) : Optimal α M :=
  let n := hashCouple H s.t s.currentDepth s.currentIndex
  { s.t with nodes := MapLike.insert s.t.nodes (s.parentDepth, s.parentIndex) n }

theorem LoopInv.hashCouple_eq {H : α → α → α} {g : Nat → Nat → α} {s : Loop α M} (h : LoopInv H g s) :
    hashCouple H s.t s.currentDepth s.currentIndex
      = H (s.t.getNode (s.parentDepth + 1) (2 * s.parentIndex))
          (s.t.getNode (s.parentDepth + 1) (2 * s.parentIndex + 1)) := by
  unfold hashCouple
  have h1 := h.cib
  have h2 := h.ci
  have h3 := h.lo_le
  have e : s.currentIndex - s.currentIndex % 2 = 2 * s.parentIndex := by omega
  simp only [e, h.cd]

theorem LoopInv.getNode_step {H : α → α → α} {g : Nat → Nat → α} {s : Loop α M} (h : LoopInv H g s)
    (l i : Nat) :
    (stepTree H s).getNode l i =
      if l = s.parentDepth ∧ i = s.parentIndex then
        H (s.t.getNode (s.parentDepth + 1) (2 * s.parentIndex))
          (s.t.getNode (s.parentDepth + 1) (2 * s.parentIndex + 1))
      else s.t.getNode l i := by
  unfold stepTree
  rw [getNode_insert, h.hashCouple_eq]
  by_cases hc : l = s.parentDepth ∧ i = s.parentIndex
  · rw [if_pos hc, if_pos (by rw [hc.1, hc.2])]
  · rw [if_neg hc, if_neg (by intro e; simp only [Prod.mk.injEq] at e; exact hc ⟨e.1.symm, e.2.symm⟩)]

theorem LoopInv.stay {H : α → α → α} {g : Nat → Nat → α} {s : Loop α M} (h : LoopInv H g s)
    (hlt : s.parentIndex + 1 < s.parentMaxIndex) :
    LoopInv H g { s with t := stepTree H s, parentIndex := s.parentIndex + 1,
                         currentIndex := s.currentIndex + 2 } := by
  have hgs := h.getNode_step
  obtain ⟨hpd, hcd, hlo, hpi, hhi, hcib, hci, hgc, hA, hB, hU, hD⟩ := h
  obtain ⟨t, pd, pi, lo, hi, cd, ci, cib⟩ := s
  simp only at hpd hcd hlo hpi hhi hcib hci hgc hA hB hU hD hlt hgs
  have hdepth : (stepTree H ⟨t, pd, pi, lo, hi, cd, ci, cib⟩).depth = t.depth := rfl
  refine ⟨?_, ?_, ?_, ?_, ?_, ?_, ?_, ?_, ?_, ?_, ?_, ?_⟩ <;> simp only [hdepth]
  · exact hpd
  · exact hcd
  · omega
  · exact hlt
  · exact hhi
  · exact hcib
  · omega
  · exact hgc
  · intro l i h1 h2 h3
    unfold ConsAt
    rw [hgs, hgs, hgs, if_neg (by omega), if_neg (by omega), if_neg (by omega)]
    exact hA l i h1 h2 h3
  · intro i h1 h2
    unfold ConsAt
    rw [hgs, hgs, hgs, if_neg (by omega : ¬(pd + 1 = pd ∧ _)), if_neg (by omega : ¬(pd + 1 = pd ∧ _))]
    by_cases hi' : i = pi
    · rw [if_pos ⟨rfl, hi'⟩, hi']
    · rw [if_neg (by omega)]
      exact hB i h1 (by omega)
  · intro l i hc
    rw [hgs, if_neg (by omega)]
    exact hU l i (by omega)
  · intro j hc
    rw [hgs, if_neg (by omega)]
    exact hD j hc

theorem LoopInv.up {H : α → α → α} {g : Nat → Nat → α} {s : Loop α M} (h : LoopInv H g s)
    (hpd0 : s.parentDepth ≠ 0) (hge : s.parentIndex + 1 ≥ s.parentMaxIndex) :
    LoopInv H g ⟨stepTree H s, s.parentDepth - 1, s.parentIndexBak / 2, s.parentIndexBak / 2,
      (s.parentMaxIndex + 1) / 2, s.currentDepth - 1, s.currentIndexBak / 2, s.currentIndexBak / 2⟩ := by
  have hgs := h.getNode_step
  obtain ⟨hpd, hcd, hlo, hpi, hhi, hcib, hci, hgc, hA, hB, hU, hD⟩ := h
  obtain ⟨t, pd, pi, lo, hi, cd, ci, cib⟩ := s
  simp only at hpd hcd hlo hpi hhi hcib hci hgc hA hB hU hD hge hgs hpd0
  have hdepth : (stepTree H ⟨t, pd, pi, lo, hi, cd, ci, cib⟩).depth = t.depth := rfl
  obtain ⟨p, rfl⟩ : ∃ p, pd = p + 1 := ⟨pd - 1, by omega⟩
  have hpow : 2 ^ (p + 1) = 2 * 2 ^ p := by rw [Nat.pow_succ]; omega
  refine ⟨?_, ?_, ?_, ?_, ?_, ?_, ?_, ?_, ?_, ?_, ?_, ?_⟩ <;>
    simp only [hdepth, Nat.add_sub_cancel]
  · omega
  · omega
  · exact Nat.le_refl _
  · omega
  · omega
  · rw [hcib]
  · omega
  · exact hgc
  · intro l i h1 h2 h3
    unfold ConsAt
    rw [hgs, hgs, hgs, if_neg (by omega : ¬(l + 1 = p + 1 ∧ _)), if_neg (by omega : ¬(l + 1 = p + 1 ∧ _))]
    by_cases hl : l = p + 1
    · subst hl
      by_cases hi' : i = pi
      · rw [if_pos ⟨rfl, hi'⟩, hi']
      · rw [if_neg (by omega)]
        by_cases hin : lo ≤ i ∧ i < pi
        · exact hB i hin.1 hin.2
        · rw [hU (p + 1) i (by omega), hD (2 * i) (by omega), hD (2 * i + 1) (by omega)]
          exact hgc (p + 1) i h2 h3
    · rw [if_neg (by omega)]
      exact hA l i (by omega) h2 h3
  · intro i h1 h2
    omega
  · intro l i hc
    rw [hgs, if_neg (by omega)]
    exact hU l i (by omega)
  · intro j hc
    rw [hgs, if_neg (by omega)]
    exact hU (p + 1) j (by omega)

theorem LoopInv.final {H : α → α → α} {g : Nat → Nat → α} {s : Loop α M} (h : LoopInv H g s)
    (hpd0 : s.parentDepth = 0) : Post H s.t (stepTree H s) := by
  have hgs := h.getNode_step
  obtain ⟨hpd, hcd, hlo, hpi, hhi, hcib, hci, hgc, hA, hB, hU, hD⟩ := h
  obtain ⟨t, pd, pi, lo, hi, cd, ci, cib⟩ := s
  simp only at hpd hcd hlo hpi hhi hcib hci hgc hA hB hU hD hgs hpd0
  subst hpd0
  have hpi0 : pi = 0 := by
    have : (2 : Nat) ^ 0 = 1 := rfl
    omega
  subst hpi0
  refine ⟨rfl, rfl, rfl, rfl, ?_, ?_⟩
  · intro i
    simp only
    rw [hgs, if_neg (by omega)]
  · intro l i h1 h2
    simp only at h1
    unfold ConsAt
    rw [hgs, hgs, hgs, if_neg (by omega : ¬(l + 1 = 0 ∧ _)), if_neg (by omega : ¬(l + 1 = 0 ∧ _))]
    by_cases hl : l = 0
    · subst hl
      have : i = 0 := by
        have : (2 : Nat) ^ 0 = 1 := rfl
        omega
      subst this
      rw [if_pos ⟨rfl, rfl⟩]
    · rw [if_neg (by omega)]
      exact hA l i (by omega) h1 h2

theorem Post.of_step {H : α → α → α} {g : Nat → Nat → α} {s : Loop α M} (h : LoopInv H g s)
    {r : Optimal α M} (hr : Post H (stepTree H s) r) : Post H s.t r := by
  have hgs := h.getNode_step
  have hpd := h.pd_lt
  obtain ⟨h1, h2, h3, h4, h5, h6⟩ := hr
  refine ⟨h1, h2, h3, h4, ?_, h6⟩
  intro i
  have := h5 i
  rw [hgs, if_neg (by
    have : (stepTree H s).depth = s.t.depth := rfl
    omega)] at this
  exact this

theorem loopRun_succ (H : α → α → α) (f : Nat) (s : Loop α M) :
    loopRun H (f + 1) s =
      if s.parentDepth = 0 then stepTree H s
      else if s.parentIndex + 1 ≥ s.parentMaxIndex then
        loopRun H f ⟨stepTree H s, s.parentDepth - 1, s.parentIndexBak / 2, s.parentIndexBak / 2,
          (s.parentMaxIndex + 1) / 2, s.currentDepth - 1, s.currentIndexBak / 2, s.currentIndexBak / 2⟩
      else loopRun H f { s with t := stepTree H s, parentIndex := s.parentIndex + 1,
                                currentIndex := s.currentIndex + 2 } := rfl

/-- the fuelled loop terminates within the fuel and re-establishes consistency -/
theorem loopRun_post (H : α → α → α) (g : Nat → Nat → α) :
    ∀ (f : Nat) (s : Loop α M), LoopInv H g s →
      (s.parentMaxIndex - s.parentIndex) + 2 ^ s.parentDepth ≤ f → Post H s.t (loopRun H f s) := by
  intro f
  induction f with
  | zero =>
    intro s h hf
    have := Nat.two_pow_pos s.parentDepth
    omega
  | succ f ih =>
    intro s h hf
    rw [loopRun_succ]
    by_cases h0 : s.parentDepth = 0
    · rw [if_pos h0]
      exact h.final h0
    · rw [if_neg h0]
      by_cases hge : s.parentIndex + 1 ≥ s.parentMaxIndex
      · rw [if_pos hge]
        apply Post.of_step h
        apply ih _ (h.up h0 hge)
        simp only
        have h1 := h.hi_le
        have h2 := h.pi_lt
        obtain ⟨p, hp⟩ : ∃ p, s.parentDepth = p + 1 := ⟨s.parentDepth - 1, by omega⟩
        rw [hp] at hf h1 ⊢
        have hpow : 2 ^ (p + 1) = 2 * 2 ^ p := by rw [Nat.pow_succ]; omega
        simp only [Nat.add_sub_cancel]
        omega
      · rw [if_neg hge]
        apply Post.of_step h
        apply ih _ (h.stay (by omega))
        simp only
        omega

/-- `update_hashes(index, length)` after leaves `[index, index+length)` were overwritten in a
    consistent tree (`g` = the old node function; `t` agrees with `g` on all inner levels and on
    the leaves outside the range): the result is consistent everywhere; leaves are untouched. -/
theorem updateHashes_post (H : α → α → α) (g : Nat → Nat → α) (t : Optimal α M) (index length : Nat)
    (hd : 0 < t.depth) (hlen : 0 < length) (hfit : index + length ≤ 2 ^ t.depth)
    (hgc : ∀ l i, l < t.depth → i < 2 ^ l → g l i = H (g (l + 1) (2 * i)) (g (l + 1) (2 * i + 1)))
    (hinner : ∀ l i, l < t.depth → t.getNode l i = g l i)
    (hleaf : ∀ i, (i < index ∨ index + length ≤ i) → t.getNode t.depth i = g t.depth i) :
    Post H t (updateHashes H t index length) := by
  unfold updateHashes
  obtain ⟨p, hp⟩ : ∃ p, t.depth = p + 1 := ⟨t.depth - 1, by omega⟩
  have hpow : 2 ^ (p + 1) = 2 * 2 ^ p := by rw [Nat.pow_succ]; omega
  have hpow2 : 2 ^ (p + 1 + 1) = 2 * 2 ^ (p + 1) := by rw [Nat.pow_succ]; omega
  have hpos := Nat.two_pow_pos p
  simp only [hp, Nat.add_sub_cancel] at hfit ⊢
  have hmin : index + length ≤ 2 * min ((if (index + length) % 2 = 0 then index + length + 2 else index + length + 1) / 2) (2 ^ p) := by
    split <;> omega
  have hmin2 : min ((if (index + length) % 2 = 0 then index + length + 2 else index + length + 1) / 2) (2 ^ p) ≤ 2 ^ p :=
    Nat.min_le_right _ _
  refine loopRun_post H g _ ⟨t, p, _, _, _, _, _, _⟩ ?_ ?_
  · exact {
      pd_lt := by simp only [hp]; omega
      cd := rfl
      lo_le := Nat.le_refl _
      pi_lt := by simp only; omega
      hi_le := hmin2
      cib := by simp only; split <;> omega
      ci := by simp only; omega
      gcons := hgc
      A := by
        intro l i h1 h2 h3
        simp only [hp] at h1 h2
        omega
      B := by
        intro i h1 h2
        simp only at h1 h2
        omega
      U := by
        intro l i hc
        simp only at hc
        exact hinner l i (by omega)
      Dd := by
        intro j hc
        simp only at hc
        have := hleaf j (by omega)
        rw [hp] at this
        exact this }
  · simp only
    omega

/-! ## `new` -/

theorem mkCached_spec (H : α → α → α) (dflt : α) :
    ∀ (n k : Nat) (acc : List α), acc.length = k + 1 →
      (∀ j, j ≤ k → acc[j]? = some (Ideal.dfltAt H dflt (k - j))) →
      (mkCached H dflt n acc).length = k + n + 1 ∧
      ∀ j, j ≤ k + n → (mkCached H dflt n acc)[j]? = some (Ideal.dfltAt H dflt (k + n - j))
  | 0, k, acc, hl, hacc => ⟨hl, hacc⟩
  | n+1, k, acc, hl, hacc => by
    unfold mkCached
    have hh : acc.headD dflt = Ideal.dfltAt H dflt k := by
      match acc, hl, hacc with
      | a :: as, _, hacc =>
        have := hacc 0 (Nat.zero_le _)
        simp only [List.getElem?_cons_zero, Option.some.injEq] at this
        simpa using this
    have := mkCached_spec H dflt n (k + 1) (H (acc.headD dflt) (acc.headD dflt) :: acc)
      (by simp [hl]) (by
        intro j hj
        cases j with
        | zero => simp only [List.getElem?_cons_zero, hh]; rfl
        | succ j =>
          simp only [List.getElem?_cons_succ]
          rw [hacc j (by omega)]
          congr 2
          omega)
    have e : k + 1 + n = k + (n + 1) := by omega
    rw [e] at this
    exact this

theorem new_cached (H : α → α → α) (dflt : α) (d l : Nat) (hl : l ≤ d) :
    (new (M := M) H dflt d).cached[l]! = Ideal.dfltAt H dflt (d - l) := by
  have h := (mkCached_spec H dflt d 0 [dflt] rfl (by
    intro j hj
    have : j = 0 := by omega
    subst this
    rfl)).2 l (by omega)
  simp only [Nat.zero_add] at h
  show ((mkCached H dflt d [dflt]).toArray)[l]! = _
  rw [Array.getElem!_eq_getD, Array.getD_eq_getD_getElem?, List.getElem?_toArray, h]
  rfl

theorem new_getNode (H : α → α → α) (dflt : α) (d l i : Nat) (hl : l ≤ d) :
    (new (M := M) H dflt d).getNode l i = Ideal.dfltAt H dflt (d - l) := by
  unfold getNode
  have : MapLike.get? (new (M := M) H dflt d).nodes (l, i) = none := LawfulMapLike.get?_empty _
  rw [this]
  exact new_cached H dflt d l hl

/-! ## Abstraction: a related tree reads as the ideal node function -/

theorem Rel.getNode_eq_aux {H : α → α → α} {dflt : α} {t : Optimal α M} {s : Ideal α}
    (h : Rel H dflt t s) :
    ∀ (k l i : Nat), l + k = t.depth → i < 2 ^ l →
      t.getNode l i = Ideal.nodeAux H (s.leaf dflt) k i
  | 0, l, i, hl, hi => by
    have : l = t.depth := by omega
    subst this
    exact h.leaves i hi
  | k+1, l, i, hl, hi => by
    have hpow : 2 ^ (l + 1) = 2 * 2 ^ l := by rw [Nat.pow_succ]; omega
    rw [h.inv.cons l i (by omega) hi]
    unfold Ideal.nodeAux
    rw [Rel.getNode_eq_aux h k (l + 1) (2 * i) (by omega) (by omega),
        Rel.getNode_eq_aux h k (l + 1) (2 * i + 1) (by omega) (by omega)]

theorem Rel.getNode_eq {H : α → α → α} {dflt : α} {t : Optimal α M} {s : Ideal α}
    (h : Rel H dflt t s) (l i : Nat) (hl : l ≤ s.depth) (hi : i < 2 ^ l) :
    t.getNode l i = s.node H dflt l i := by
  unfold Ideal.node
  have hd := h.depth
  exact h.getNode_eq_aux (s.depth - l) l i (by omega) hi

/-! ## Membership proofs -/

theorem xor_one_div (i : Nat) : (i ^^^ 1) / 2 = i / 2 := by
  have := @Nat.xor_div_two i 1
  simpa using this

theorem xor_one_mod (i : Nat) : (i ^^^ 1) % 2 = 1 - i % 2 := by
  have := @Nat.xor_mod_two_eq_one i 1
  omega

theorem xor_one_lt (i d : Nat) (h : i < 2 ^ (d + 1)) : i ^^^ 1 < 2 ^ (d + 1) := by
  have hpow : 2 ^ (d + 1) = 2 * 2 ^ d := by rw [Nat.pow_succ]; omega
  have h1 := xor_one_div i
  have h2 := xor_one_mod i
  omega

theorem Rel.proofAux_eq {H : α → α → α} {dflt : α} {t : Optimal α M} {s : Ideal α}
    (h : Rel H dflt t s) :
    ∀ (d i : Nat), d ≤ s.depth → i < 2 ^ d → proofAux t d i = Ideal.proofAux H dflt s d d i
  | 0, i, _, _ => rfl
  | d+1, i, hd, hi => by
    have hpow : 2 ^ (d + 1) = 2 * 2 ^ d := by rw [Nat.pow_succ]; omega
    unfold proofAux Ideal.proofAux
    simp only [Nat.add_sub_cancel]
    rw [h.getNode_eq (d + 1) (i ^^^ 1) hd (xor_one_lt i d hi), xor_one_div, xor_one_mod,
        Rel.proofAux_eq h d (i / 2) (by omega) (by omega)]
    congr 2
    omega

/-! ## Frame facts about the ideal tree's bulk writes -/

theorem _root_.Zk.Tree.Ideal.writeMany_depth (s : Ideal α) (start : Nat) (vs : List α) :
    (s.writeMany start vs).depth = s.depth := by
  induction vs generalizing s start with
  | nil => rfl
  | cons v r ih => unfold Ideal.writeMany; rw [ih]; rfl

theorem _root_.Zk.Tree.Ideal.writeMany_next (s : Ideal α) (start : Nat) (vs : List α) :
    (s.writeMany start vs).next = s.next := by
  induction vs generalizing s start with
  | nil => rfl
  | cons v r ih => unfold Ideal.writeMany; rw [ih]; rfl

theorem _root_.Zk.Tree.Ideal.delete_depth (dflt : α) (s : Ideal α) (i : Nat) :
    (s.delete dflt i).depth = s.depth := by
  unfold Ideal.delete; split <;> rfl

theorem _root_.Zk.Tree.Ideal.delete_next (dflt : α) (s : Ideal α) (i : Nat) :
    (s.delete dflt i).next = s.next := by
  unfold Ideal.delete; split <;> rfl

theorem _root_.Zk.Tree.Ideal.removeMany_depth (dflt : α) (s : Ideal α) (rem : List Nat) :
    (s.removeMany dflt rem).depth = s.depth := by
  induction rem generalizing s with
  | nil => rfl
  | cons v r ih => unfold Ideal.removeMany; rw [ih, Ideal.delete_depth]

theorem _root_.Zk.Tree.Ideal.removeMany_next (dflt : α) (s : Ideal α) (rem : List Nat) :
    (s.removeMany dflt rem).next = s.next := by
  induction rem generalizing s with
  | nil => rfl
  | cons v r ih => unfold Ideal.removeMany; rw [ih, Ideal.delete_next]

/-- the leaf function only looks at the write list -/
theorem _root_.Zk.Tree.Ideal.leaf_cons (dflt : α) (s s' : Ideal α) (i j : Nat) (v : α)
    (h : s'.writes = (i, v) :: s.writes) :
    s'.leaf dflt j = if j = i then v else s.leaf dflt j := by
  unfold Ideal.leaf
  rw [h, List.lookup_cons]
  by_cases hj : j = i
  · subst hj; simp
  · have : (j == i) = false := by simpa using hj
    rw [this, if_neg hj]

theorem live_cons_getD (lv : List (Nat × Bool)) (i j : Nat) (b : Bool) :
    (List.lookup j ((i, b) :: lv)).getD false = if j = i then b else (List.lookup j lv).getD false := by
  rw [List.lookup_cons]
  by_cases hj : j = i
  · subst hj; simp
  · have : (j == i) = false := by simpa using hj
    rw [this, if_neg hj]

theorem flags_set (fl : Array Nat) (i j b : Nat) (hi : i < fl.size) :
    (fl.setIfInBounds i b)[j]! = if j = i then b else fl[j]! := by
  rw [Array.getElem!_eq_getD, Array.getD_eq_getD_getElem?, Array.getElem?_setIfInBounds,
      Array.getElem!_eq_getD, Array.getD_eq_getD_getElem?]
  by_cases hj : j = i
  · subst hj; simp [hi]
  · rw [if_neg (by omega), if_neg hj]

/-- reading after an insertion, whatever happened to the other fields -/
theorem getNode_mk_insert (d d' : Nat) (c : Array α) (m : M) (f f' : Array Nat) (n n' : Nat)
    (k : Nat × Nat) (v : α) (l i : Nat) :
    getNode (⟨d, c, MapLike.insert m k v, f, n⟩ : Optimal α M) l i
      = if k = (l, i) then v else getNode (⟨d', c, m, f', n'⟩ : Optimal α M) l i := by
  unfold getNode
  simp only [LawfulMapLike.get?_insert]
  by_cases h : k = (l, i)
  · simp only [if_pos h]
  · simp only [if_neg h]

theorem getNode_congr (t t' : Optimal α M) (hn : t'.nodes = t.nodes) (hc : t'.cached = t.cached)
    (l i : Nat) : t'.getNode l i = t.getNode l i := by
  unfold getNode; rw [hn, hc]

/-! ## Leaf-level relation and `insertLeaves` -/

/-- the leaf level and the flags of `t` mirror the ideal tree `s` -/
structure LRel (dflt : α) (t : Optimal α M) (s : Ideal α) : Prop where
  fsize : t.flags.size = 2 ^ t.depth
  leaves : ∀ i, i < 2 ^ t.depth → t.getNode t.depth i = s.leaf dflt i
  flags : ∀ i, i < 2 ^ t.depth → (t.flags[i]! = 0 ↔ (s.live.lookup i).getD false = false)

theorem Rel.lrel {H : α → α → α} {dflt : α} {t : Optimal α M} {s : Ideal α} (h : Rel H dflt t s) :
    LRel dflt t s := ⟨h.inv.fsize, h.leaves, h.flags⟩

theorem insertLeaves_spec (dflt : α) :
    ∀ (vs : List α) (t : Optimal α M) (s : Ideal α) (start : Nat), LRel dflt t s →
      start + vs.length ≤ 2 ^ t.depth →
      (insertLeaves t start vs).depth = t.depth ∧
      (insertLeaves t start vs).cached = t.cached ∧
      (insertLeaves t start vs).next = t.next ∧
      (∀ l i, l < t.depth → (insertLeaves t start vs).getNode l i = t.getNode l i) ∧
      (∀ i, (i < start ∨ start + vs.length ≤ i) →
        (insertLeaves t start vs).getNode t.depth i = t.getNode t.depth i) ∧
      LRel dflt (insertLeaves t start vs) (s.writeMany start vs)
  | [], t, s, start, h, _ => ⟨rfl, rfl, rfl, fun _ _ _ => rfl, fun _ _ => rfl, h⟩
  | v :: r, t, s, start, h, hfit => by
    simp only [List.length_cons] at hfit
    unfold insertLeaves Ideal.writeMany
    have hg : ∀ l i, getNode (⟨t.depth, t.cached, MapLike.insert t.nodes (t.depth, start) v,
          t.flags.setIfInBounds start 1, t.next⟩ : Optimal α M) l i
        = if (t.depth, start) = (l, i) then v else t.getNode l i :=
      fun l i => getNode_mk_insert _ _ _ _ _ _ _ _ _ _ l i
    have hstart : start < t.flags.size := by rw [h.fsize]; omega
    have h' : LRel dflt (⟨t.depth, t.cached, MapLike.insert t.nodes (t.depth, start) v,
          t.flags.setIfInBounds start 1, t.next⟩ : Optimal α M) (s.write start v) := by
      refine ⟨?_, ?_, ?_⟩
      · simp only [Array.size_setIfInBounds]; exact h.fsize
      · intro i hi
        simp only at hi ⊢
        rw [hg, Ideal.leaf_cons dflt s (s.write start v) start i v rfl]
        by_cases hi' : i = start
        · subst hi'; simp
        · rw [if_neg (by intro e; simp only [Prod.mk.injEq] at e; omega), if_neg hi']
          exact h.leaves i hi
      · intro i hi
        simp only at hi ⊢
        rw [flags_set _ _ _ _ hstart]
        show _ ↔ (List.lookup i ((start, true) :: s.live)).getD false = false
        rw [live_cons_getD]
        by_cases hi' : i = start
        · subst hi'; simp
        · rw [if_neg hi', if_neg hi']
          exact h.flags i hi
    obtain ⟨i1, i2, i3, i4, i5, i6⟩ := insertLeaves_spec dflt r _ (s.write start v) (start + 1) h'
      (by show start + 1 + r.length ≤ 2 ^ t.depth; omega)
    simp only at i1 i2 i3 i4 i5
    refine ⟨i1, i2, i3, ?_, ?_, i6⟩
    · intro l i hl
      rw [i4 l i hl, hg, if_neg (by intro e; simp only [Prod.mk.injEq] at e; omega)]
    · intro i hi
      simp only [List.length_cons] at hi
      rw [i5 i (by omega), hg, if_neg (by intro e; simp only [Prod.mk.injEq] at e; omega)]

/-! ## From the post-condition of `update_hashes` back to the refinement relation -/

/-- Lemma A: `update_hashes` after overwriting leaves `[index, index+length)` of a related tree -/
theorem Rel.update_post {H : α → α → α} {dflt : α} {t : Optimal α M} {s : Ideal α}
    (h : Rel H dflt t s) (t1 : Optimal α M) (index length : Nat)
    (hdepth : t1.depth = t.depth)
    (hinner : ∀ l i, l < t.depth → t1.getNode l i = t.getNode l i)
    (hout : ∀ i, (i < index ∨ index + length ≤ i) → t1.getNode t.depth i = t.getNode t.depth i)
    (hlen : 0 < length) (hfit : index + length ≤ 2 ^ t.depth) :
    Post H t1 (updateHashes H t1 index length) := by
  apply updateHashes_post H (fun l i => t.getNode l i) t1 index length
  · rw [hdepth]; exact h.inv.depth_pos
  · exact hlen
  · rw [hdepth]; exact hfit
  · intro l i hl hi; rw [hdepth] at hl; exact h.inv.cons l i hl hi
  · intro l i hl; rw [hdepth] at hl; exact hinner l i hl
  · intro i hi; rw [hdepth]; exact hout i hi

/-- Lemma B: a consistent tree with the right leaves, flags and counter is related -/
theorem Rel.of_post {H : α → α → α} {dflt : α} {t : Optimal α M} {s : Ideal α}
    (h : Rel H dflt t s) {t1 r : Optimal α M} (hp : Post H t1 r) (s' : Ideal α) (nx : Nat) (fl : Array Nat)
    (hdepth : t1.depth = t.depth) (hcached : t1.cached = t.cached)
    (hsd : s'.depth = s.depth) (hnx : nx = s'.next) (hnxle : nx ≤ 2 ^ t.depth)
    (hfs : fl.size = 2 ^ t.depth)
    (hleaves : ∀ i, i < 2 ^ t.depth → t1.getNode t.depth i = s'.leaf dflt i)
    (hflags : ∀ i, i < 2 ^ t.depth → (fl[i]! = 0 ↔ (s'.live.lookup i).getD false = false)) :
    Rel H dflt (⟨r.depth, r.cached, r.nodes, fl, nx⟩ : Optimal α M) s' := by
  have hgn : ∀ l i, getNode (⟨r.depth, r.cached, r.nodes, fl, nx⟩ : Optimal α M) l i = r.getNode l i :=
    fun l i => rfl
  have hrd : r.depth = t.depth := by rw [hp.depth, hdepth]
  refine ⟨⟨?_, ?_, ?_, ?_, ?_⟩, ?_, ?_, ?_, ?_⟩
  · show r.cached.size = r.depth + 1
    rw [hp.cached, hcached, hrd]; exact h.inv.csize
  · show fl.size = 2 ^ r.depth
    rw [hrd]; exact hfs
  · show nx ≤ 2 ^ r.depth
    rw [hrd]; exact hnxle
  · show 0 < r.depth
    rw [hrd]; exact h.inv.depth_pos
  · intro l i hl hi
    simp only at hl
    rw [hgn, hgn, hgn]
    exact hp.cons l i (by omega) hi
  · show r.depth = s'.depth
    rw [hrd, hsd]; exact h.depth
  · exact hnx
  · intro i hi
    simp only at hi ⊢
    rw [hgn, hrd]
    rw [hrd] at hi
    have := hp.leaves i
    rw [hdepth] at this
    rw [this]
    exact hleaves i hi
  · intro i hi
    simp only at hi ⊢
    rw [hrd] at hi
    exact hflags i hi

end Optimal
end Zk.Tree
