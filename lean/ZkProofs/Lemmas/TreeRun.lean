import ZkProofs.Lemmas.TreeDefs
/-!
# Histories: operation sequences run on the ideal tree and on the backends

`TreeOp` is the mutator alphabet of the `ZerokitMerkleTree` trait. `applyOp` is the raw outcome of
one operation, `step` keeps the old state when the operation is rejected, `stepOut` says whether it
was accepted, `run` folds a history from the freshly constructed tree.
-/
namespace Zk.Tree

/-- one mutator call -/
inductive TreeOp (α : Type) where
  | set (i : Nat) (v : α)
  | delete (i : Nat)
  | append (v : α)
  | setRange (start : Nat) (vs : List α)
  | batch (start : Nat) (vs : List α) (rem : List Nat)
  | reset

/-- the new state when the call was accepted, the old state otherwise -/
def keepOk {σ : Type} (t : σ) : Outcome σ → σ
  | .ok t' => t'
  | _ => t

variable {α : Type} [Inhabited α]

/-! ## the specification -/

def Ideal.applyOp (dflt : α) (t : Ideal α) : TreeOp α → Outcome (Ideal α)
  | .set i v => t.set i v
  | .delete i => .ok (t.delete dflt i)
  | .append v => t.append v
  | .setRange start vs => t.setRange start vs
  | .batch start vs rem => Ideal.batch dflt t start vs rem
  | .reset => .ok (Ideal.new t.depth)

def Ideal.step (dflt : α) (t : Ideal α) (op : TreeOp α) : Ideal α :=
  keepOk t (Ideal.applyOp dflt t op)

def Ideal.stepOut (dflt : α) (t : Ideal α) : TreeOp α → Bool
  | .delete _ => true
  | .reset => true
  | op => (Ideal.applyOp dflt t op).isOk

def Ideal.run (dflt : α) (d : Nat) (ops : List (TreeOp α)) : Ideal α :=
  ops.foldl (Ideal.step dflt) (Ideal.new d)

/-! ## `FullMerkleTree` -/

def Full.applyOp (H : α → α → α) (dflt : α) (t : Full α) : TreeOp α → Outcome (Full α)
  | .set i v => Full.set H t i v
  | .delete i => Full.delete H dflt t i
  | .append v => Full.updateNext H t v
  | .setRange start vs => Full.setRange H t start vs
  | .batch start vs rem => Full.overrideRange H dflt t start vs rem
  | .reset => .ok (Full.new H dflt t.depth)

def Full.step (H : α → α → α) (dflt : α) (t : Full α) (op : TreeOp α) : Full α :=
  keepOk t (Full.applyOp H dflt t op)

def Full.stepOut (H : α → α → α) (dflt : α) (t : Full α) : TreeOp α → Bool
  | .delete _ => true
  | .reset => true
  | op => (Full.applyOp H dflt t op).isOk

def Full.run (H : α → α → α) (dflt : α) (d : Nat) (ops : List (TreeOp α)) : Full α :=
  ops.foldl (Full.step H dflt) (Full.new H dflt d)

/-- `RLN::init_tree_with_leaves`: `set_tree(new)` then `set_leaves_from(0, leaves)`, which is
    `override_range(0, leaves, [])` -/
def Full.initTreeWithLeaves (H : α → α → α) (dflt : α) (d : Nat) (vs : List α) : Outcome (Full α) :=
  Full.overrideRange H dflt (Full.new H dflt d) 0 vs []

/-! ## `OptimalMerkleTree` -/

variable {M : Type} [MapLike M (Nat × Nat) α]

def Optimal.applyOp (H : α → α → α) (dflt : α) (t : Optimal α M) : TreeOp α → Outcome (Optimal α M)
  | .set i v => Optimal.set H t i v
  | .delete i => Optimal.delete H dflt t i
  | .append v => Optimal.updateNext H t v
  | .setRange start vs => Optimal.setRange H t start vs
  | .batch start vs rem => Optimal.overrideRange H dflt t start vs rem
  | .reset => .ok (Optimal.new H dflt t.depth)

def Optimal.step (H : α → α → α) (dflt : α) (t : Optimal α M) (op : TreeOp α) : Optimal α M :=
  keepOk t (Optimal.applyOp H dflt t op)

def Optimal.stepOut (H : α → α → α) (dflt : α) (t : Optimal α M) : TreeOp α → Bool
  | .delete _ => true
  | .reset => true
  | op => (Optimal.applyOp H dflt t op).isOk

def Optimal.run (H : α → α → α) (dflt : α) (d : Nat) (ops : List (TreeOp α)) : Optimal α M :=
  ops.foldl (Optimal.step H dflt) (Optimal.new H dflt d)

def Optimal.initTreeWithLeaves (H : α → α → α) (dflt : α) (d : Nat) (vs : List α) :
    Outcome (Optimal α M) :=
  Optimal.overrideRange H dflt (Optimal.new H dflt d) 0 vs []

/-! # Backend-independent facts about histories -/

section generic
variable {α : Type}

/-- association lists are a lawful map for every lawful `BEq` on the keys (the instance in
    `ZkModel.Map` is stated for the `BEq` derived from `DecidableEq`; pairs use `instBEqProd`) -/
instance AList.lawful {K V : Type} [DecidableEq K] [BEq K] [LawfulBEq K] : LawfulMapLike (AList K V) K V where
  get?_empty := by intro k; rfl
  get?_insert := by
    intro m k k' v
    show List.lookup k' ((k, v) :: m.l) = if k = k' then some v else List.lookup k' m.l
    rw [List.lookup_cons]
    by_cases h : k = k'
    · subst h; simp
    · have : (k' == k) = false := by simp [Ne.symm h]
      simp [this, h]

/-! ## outcomes -/

theorem RefinesOutcome.keep {σ : Type} {R : σ → Ideal α → Prop} {t : σ} {s : Ideal α}
    {ot : Outcome σ} {os : Outcome (Ideal α)} (h : RefinesOutcome R t s ot os) :
    R (keepOk t ot) (keepOk s os) ∧ ot.isOk = os.isOk ∧ ot ≠ .panic := by
  cases ot <;> cases os <;> simp [RefinesOutcome, keepOk, Outcome.isOk] at h ⊢ <;> exact h

theorem RefinesOutcome.ok_right {σ : Type} {R : σ → Ideal α → Prop} {t : σ} {s s' : Ideal α}
    {ot : Outcome σ} (h : RefinesOutcome R t s ot (.ok s')) : ∃ t', ot = .ok t' ∧ R t' s' := by
  cases ot <;> simp [RefinesOutcome] at h ⊢ <;> exact h

theorem keepOk_of_not_ok {σ : Type} (t : σ) (o : Outcome σ) (h : o.isOk = false) : keepOk t o = t := by
  cases o <;> simp [keepOk, Outcome.isOk] at h ⊢

/-! ## the specification keeps its depth -/

private theorem Ideal.writeMany_depth' (s : Ideal α) (start : Nat) (vs : List α) :
    (s.writeMany start vs).depth = s.depth := by
  induction vs generalizing s start with
  | nil => rfl
  | cons v r ih => unfold Ideal.writeMany; rw [ih]; rfl

private theorem Ideal.delete_depth' (dflt : α) (s : Ideal α) (i : Nat) :
    (s.delete dflt i).depth = s.depth := by
  unfold Ideal.delete; split <;> rfl

private theorem Ideal.removeMany_depth' (dflt : α) (s : Ideal α) (rem : List Nat) :
    (s.removeMany dflt rem).depth = s.depth := by
  induction rem generalizing s with
  | nil => rfl
  | cons v r ih => unfold Ideal.removeMany; rw [ih, Ideal.delete_depth']

theorem Ideal.step_depth (dflt : α) (s : Ideal α) (op : TreeOp α) :
    (Ideal.step dflt s op).depth = s.depth := by
  cases op with
  | set i v =>
    simp only [Ideal.step, Ideal.applyOp, Ideal.set]
    split <;> rfl
  | delete i => exact Ideal.delete_depth' dflt s i
  | append v =>
    simp only [Ideal.step, Ideal.applyOp, Ideal.append, Ideal.set]
    split <;> rfl
  | setRange start vs =>
    simp only [Ideal.step, Ideal.applyOp, Ideal.setRange]
    split
    · exact Ideal.writeMany_depth' s start vs
    · rfl
  | batch start vs rem =>
    simp only [Ideal.step, Ideal.applyOp, Ideal.batch]
    split
    · rfl
    · show (Ideal.writeMany _ start vs).depth = _
      rw [Ideal.writeMany_depth', Ideal.removeMany_depth']
  | reset => rfl

theorem Ideal.foldl_depth (dflt : α) (ops : List (TreeOp α)) : ∀ s : Ideal α,
    (ops.foldl (Ideal.step dflt) s).depth = s.depth := by
  induction ops with
  | nil => intro s; rfl
  | cons op r ih => intro s; rw [List.foldl_cons, ih, Ideal.step_depth]

theorem Ideal.run_depth (dflt : α) (d : Nat) (ops : List (TreeOp α)) :
    (Ideal.run dflt d ops).depth = d :=
  Ideal.foldl_depth dflt ops _

/-- the empty range changes nothing in the specification, accepted or not -/
theorem Ideal.step_setRange_nil (dflt : α) (s : Ideal α) (start : Nat) :
    Ideal.step dflt s (.setRange start []) = s := by
  simp only [Ideal.step, Ideal.applyOp, Ideal.setRange]
  split <;> rfl

/-! ## the specification's empty-leaf list -/

theorem Ideal.mem_emptyIdx (s : Ideal α) (i : Nat) :
    i ∈ s.emptyIdx ↔ i < s.next ∧ (s.live.lookup i).getD false = false := by
  simp [Ideal.emptyIdx]

theorem Ideal.emptyIdx_sorted (s : Ideal α) : s.emptyIdx.Pairwise (· < ·) :=
  List.Pairwise.filter _ List.pairwise_lt_range

end generic

end Zk.Tree
