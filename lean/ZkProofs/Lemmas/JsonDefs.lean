import ZkModel.Json
import ZkProofs.Lemmas.ProtoDefs
/-!
# Statements about the JSON witness codec (C10, anchor "JSON witness codec")

STATEMENTS only; the proofs are in `JsonProofs.lean`, the property theorems in `C10Json.lean`.
-/
namespace Zk
open Zk.Codec Zk.Protocol Zk.Json Zk.Proto

/-- lossless round trip on all values the encoder accepts -/
def JsonRoundtripStmt : Prop :=
  ∀ w : Witness, CanonW w → w.messageId < w.userMessageLimit →
    ∃ o, witnessToJson w = .ok o ∧ witnessFromJson o = .ok w

/-- the encoder refuses exactly the witnesses that fail the range check and never panics -/
def JsonEncodeErrStmt : Prop :=
  ∀ w : Witness, (witnessToJson w = .err ↔ w.userMessageLimit ≤ w.messageId) ∧ witnessToJson w ≠ .panic ∧
    (witnessToBigintJson w = .err ↔ w.userMessageLimit ≤ w.messageId) ∧ witnessToBigintJson w ≠ .panic

/-- whatever object is decoded, an accepted witness is canonical and in range
    (no alias `v + p`, no out-of-range message id comes in through JSON) -/
def JsonDecodeCanonicalStmt : Prop :=
  ∀ (o : JObj) (w : Witness), witnessFromJson o = .ok w →
    w.identitySecret < P ∧ w.userMessageLimit < P ∧ w.messageId < P ∧ w.x < P ∧ w.externalNullifier < P ∧
    (∀ e ∈ w.pathElements, e < P) ∧ w.messageId < w.userMessageLimit

/-- decoding is injective on what the encoder produces: two canonical witnesses with the same
    JSON object are equal (the encoding loses nothing) -/
def JsonEncodeInjectiveStmt : Prop :=
  ∀ (w w' : Witness) (o : JObj), CanonW w → CanonW w' →
    witnessToJson w = .ok o → witnessToJson w' = .ok o → w = w'

/-- the JSON fields are the fields of the documented byte layout: concatenating the byte arrays
    of the object in the layout's order, with the index list's `u64` count put back, is
    `serialize_witness` -/
def JsonMatchesBytesStmt : Prop :=
  ∀ (w : Witness) (o : JObj), witnessToJson w = .ok o →
    ∃ s lim mid path idx x e,
      (lookup o "identity_secret").bind asBytes = some s ∧
      (lookup o "user_message_limit").bind asBytes = some lim ∧
      (lookup o "message_id").bind asBytes = some mid ∧
      (lookup o "path_elements").bind asBytes = some path ∧
      (lookup o "identity_path_index").bind asBytes = some idx ∧
      (lookup o "x").bind asBytes = some x ∧
      (lookup o "external_nullifier").bind asBytes = some e ∧
      serializeWitness w = .ok (s ++ lim ++ mid ++ path ++ (normalizeUsize idx.length ++ idx) ++ x ++ e)

/-- the circom input file: every value is the decimal numeral of the field (an independent
    decimal reader gets the witness back) -/
def BigintJsonStmt : Prop :=
  ∀ (w : Witness) (o : JObj), witnessToBigintJson w = .ok o →
    (lookup o "identitySecret").bind readDecimal = some w.identitySecret ∧
    (lookup o "userMessageLimit").bind readDecimal = some w.userMessageLimit ∧
    (lookup o "messageId").bind readDecimal = some w.messageId ∧
    (lookup o "x").bind readDecimal = some w.x ∧
    (lookup o "externalNullifier").bind readDecimal = some w.externalNullifier ∧
    (lookup o "pathElements").bind readDecimals = some w.pathElements ∧
    (lookup o "identityPathIndex").bind readDecimals = some (w.identityPathIndex.map (·.toNat))

/-- leniencies of the decoder as it is (observations, kernel-checked in `C10Json.lean`):
    bytes after the 32nd of a field are not read, and unknown keys are ignored -/
def JsonDecoderIgnoresTrailingStmt : Prop :=
  ∀ (o : JObj) (w : Witness) (extra : List Nat), witnessFromJson o = .ok w →
    (∀ b ∈ extra, b < 256) →
    ∀ l, lookup o "x" = some (.nums l) →
      witnessFromJson (("x", .nums (l ++ extra)) :: o) = .ok w

end Zk
