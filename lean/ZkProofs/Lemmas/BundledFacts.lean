import ZkProofs.Lemmas.GraphLemmas
/-!
# Kernel-checked facts about the bundled graph (`ZkModel/Generated/BundledGraph.lean`)

Only this file evaluates the 23 414 generated nodes; it has to be rebuilt only when `graph.bin`
changes. `chunks` lists the generated chunk definitions in the order of `def nodes := c0 ++ c1 ++ …`
(replace ` ++ ` by `, ` in that line when the number of chunks changes).
-/
namespace Zk.Graph
open Zk.Generated.Bundled
set_option maxRecDepth 100000

def chunks : List (List Node) := [c0, c1, c2, c3, c4, c5, c6, c7, c8, c9, c10, c11, c12, c13, c14, c15, c16, c17, c18, c19, c20, c21, c22, c23, c24, c25, c26, c27, c28, c29, c30, c31, c32, c33, c34, c35, c36, c37, c38, c39, c40, c41, c42, c43, c44, c45, c46, c47, c48, c49, c50, c51, c52, c53, c54, c55, c56, c57, c58]

theorem nodes_eq_chunks : nodes = chunks.flatten := by
  have h : nodes = chunks.foldl (fun a c => a ++ c) [] := rfl
  rw [h, foldl_append_flatten, List.nil_append]

theorem chunks_wf : wfChunks 46 chunks 0 = true := by decide +kernel

theorem chunks_len : lenChunks chunks = 23414 := by decide +kernel

theorem bundled_inputsSize : getInputsSize nodes false 0 = 46 := by decide +kernel

theorem bundled_signals : signals.length = 5844 ∧ signals.all (fun o => decide (o < 23414)) = true := by
  decide +kernel

theorem bundled_info : inputsInfo =
    [("externalNullifier", 2, 1), ("identityPathIndex", 26, 20), ("identitySecret", 3, 1), ("messageId", 5, 1),
     ("pathElements", 6, 20), ("userMessageLimit", 4, 1), ("x", 1, 1)] := rfl

theorem bundled_consumed : fileConsumedExactly = true := rfl

theorem bundled_pos0 : getChunks? chunks signals[0]! = some (.input 0) := by decide +kernel
theorem bundled_pos4 : getChunks? chunks signals[4]! = some (.input 1) := by decide +kernel
theorem bundled_pos5 : getChunks? chunks signals[5]! = some (.input 2) := by decide +kernel
theorem bundled_pos123 : isAdd (getChunks? chunks signals[1]!) = true ∧ isAdd (getChunks? chunks signals[2]!) = true ∧
    isAdd (getChunks? chunks signals[3]!) = true := by decide +kernel

end Zk.Graph
