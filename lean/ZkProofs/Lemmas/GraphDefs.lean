import ZkModel.Graph.Storage
import ZkModel.Generated.BundledGraph
/-!
# Statements proved about the witness-graph evaluator, input placement and the container (C20, C05)
-/
namespace Zk.Graph
open Zk.Graph.Storage

/-- the single pass computes, for every node, the reference interpretation of that node -/
def EvalAllDenoteStmt : Prop :=
  ∀ (nodes : List Node) (inputs values : Array Nat), evalAll inputs nodes #[] = .ok values →
    values.size = nodes.length ∧
    ∀ i, i < nodes.length → denote nodes.toArray inputs (i + 1) i = .ok values[i]!

/-- … hence `evaluate` returns exactly the reference interpretation of each requested output -/
def EvaluateDenoteStmt : Prop :=
  ∀ (nodes : List Node) (inputs : Array Nat) (outs vs : List Nat), evaluate nodes inputs outs = .ok vs →
    vs.length = outs.length ∧
    ∀ k, k < outs.length → denote nodes.toArray inputs (outs[k]! + 1) outs[k]! = .ok vs[k]!

/-- a well-formed graph evaluates without crashing on every canonical input buffer, to canonical values -/
def EvaluateTotalStmt : Prop :=
  ∀ (nodes : List Node) (inputs : Array Nat) (outs : List Nat), WellFormed nodes inputs.size →
    (∀ i, i < inputs.size → inputs[i]! < P) → (∀ o ∈ outs, o < nodes.length) →
    ∃ vs, evaluate nodes inputs outs = .ok vs ∧ vs.length = outs.length ∧ ∀ v ∈ vs, v < P

/-- the supplied vectors all fit their declared ranges -/
def InputsFit (info : List (String × Nat × Nat)) (ins : List (String × List Nat)) : Prop :=
  (ins.map (·.1)).Nodup ∧ ∀ e ∈ ins, ∃ off len, info.lookup e.1 = some (off, len) ∧ len = e.2.length

/-- with disjoint declared ranges the buffer does not depend on the order in which the named
    vectors are supplied (the source iterates a `HashMap`) -/
def PopulatePermStmt : Prop :=
  ∀ (info : List (String × Nat × Nat)) (ins ins' : List (String × List Nat)) (buf : Array Nat),
    LayoutOk info buf.size → InputsFit info ins → ins'.Perm ins →
    populateInputs info ins' buf = populateInputs info ins buf ∧ ∃ b, populateInputs info ins buf = .ok b ∧ b.size = buf.size

/-- and each vector lands at its declared offset -/
def PopulatePlacesStmt : Prop :=
  ∀ (info : List (String × Nat × Nat)) (ins : List (String × List Nat)) (buf b : Array Nat),
    LayoutOk info buf.size → InputsFit info ins → populateInputs info ins buf = .ok b →
    (∀ e ∈ ins, ∀ off len, info.lookup e.1 = some (off, len) → ∀ j, j < len → b[off + j]! = e.2[j]!) ∧
    (∀ p, p < buf.size → (∀ e ∈ ins, ∀ off len, info.lookup e.1 = some (off, len) → p < off ∨ off + len ≤ p) → b[p]! = buf[p]!)

def VarintStmt : Prop :=
  ∀ (n : Nat) (rest : List UInt8), n < 2 ^ 64 →
    (encVarint n).length ≤ 10 ∧ 0 < (encVarint n).length ∧
    decVarint 10 (encVarint n ++ rest) = some (n, (encVarint n).length)

/-- the push-back reader returns the underlying bytes in order, whatever was pushed back from a
    previous look-ahead: reading `n` bytes after pushing back the tail of what was just read -/
def WriteBackStmt : Prop :=
  ∀ (bytes : List UInt8) (k n : Nat), k ≤ 10 → k ≤ bytes.length →
    let r0 : WBR := { reader := bytes, buffer := [] }
    let (look, r1) := r0.read 10
    let r2 := r1.write (look.drop k)
    (r2.read n).1 = (bytes.drop k).take n

/-- container round trip at the framing level: any list of message bodies and any metadata body -/
def FramingStmt : Prop :=
  ∀ (msgs : List (List UInt8)) (md : List UInt8), msgs.length < 2 ^ 64 → (∀ m ∈ msgs, m.length < 2 ^ 64) →
    md.length < 2 ^ 64 → unframe (frame msgs md) = some (msgs, md)

/-- nodes a container can hold: no `Constant`, indices below 2^32, canonical constants -/
def Serializable : Node → Prop
  | .input i => i < 2 ^ 32
  | .constant _ => False
  | .montConstant c => c < P
  | .uno _ a => a < 2 ^ 32
  | .duo _ a b => a < 2 ^ 32 ∧ b < 2 ^ 32
  | .tres _ a b c => a < 2 ^ 32 ∧ b < 2 ^ 32 ∧ c < 2 ^ 32

def NodeConvStmt : Prop :=
  ∀ n : Node, Serializable n → ∃ p, toProto n = .ok p ∧ ofProto p = .ok n

/-! ## the bundled graph (regenerated from graph.bin on every run) -/

open Zk.Generated.Bundled in
def BundledWfStmt : Prop :=
  WellFormed nodes 46 ∧ getInputsSize nodes false 0 = 46 ∧ nodes.length = 23414 ∧ signals.length = 5844 ∧
  signals.all (fun o => decide (o < 23414)) = true ∧
  inputsInfo = [("externalNullifier", 2, 1), ("identityPathIndex", 26, 20), ("identitySecret", 3, 1), ("messageId", 5, 1),
                ("pathElements", 6, 20), ("userMessageLimit", 4, 1), ("x", 1, 1)] ∧
  -- witness position 0 is the constant-one input, positions 4 and 5 are the public inputs x and externalNullifier
  -- (declared at buffer offsets 1 and 2); positions 1..3 are the computed outputs y, root, nullifier
  nodes[signals[0]!]? = some (.input 0) ∧ nodes[signals[4]!]? = some (.input 1) ∧ nodes[signals[5]!]? = some (.input 2) ∧
  (∀ k, k ∈ [1, 2, 3] → ∃ a b, nodes[signals[k]!]? = some (.duo .Add a b)) ∧
  fileConsumedExactly = true

/-- an assignment of the circuit's 46 inputs: the seven named vectors with their declared lengths, canonical values -/
def Assignment (ins : List (String × List Nat)) : Prop :=
  (ins.map (·.1)).Perm ["externalNullifier", "identityPathIndex", "identitySecret", "messageId", "pathElements", "userMessageLimit", "x"] ∧
  (∀ e ∈ ins, (e.1 = "pathElements" ∨ e.1 = "identityPathIndex") → e.2.length = 20) ∧
  (∀ e ∈ ins, ¬ (e.1 = "pathElements" ∨ e.1 = "identityPathIndex") → e.2.length = 1) ∧
  (∀ e ∈ ins, ∀ v ∈ e.2, v < P)

open Zk.Generated.Bundled in
/-- C05 (evaluator half): on every assignment the evaluator returns a complete witness of canonical
    values, never crashes, and the result does not depend on the order of the named inputs -/
def BundledTotalStmt : Prop :=
  ∀ ins ins' : List (String × List Nat), Assignment ins → ins'.Perm ins →
    ∃ w, calcWitness nodes signals inputsInfo ins = .ok w ∧ w.length = 5844 ∧ (∀ v ∈ w, v < P) ∧
      calcWitness nodes signals inputsInfo ins' = .ok w

end Zk.Graph
