import ZkProofs.Lemmas.ZkeyDefs
/-!
# Proofs of the statements in `ZkeyDefs.lean`
-/
namespace Zk.Zkey
open Zk

/-! ## sections -/

theorem find_none_of_ne (ss : List Section) (id : Nat) (h : ∀ t ∈ ss, t.id ≠ id) :
    ss.find? (fun s => s.id == id) = none := by
  rw [List.find?_eq_none]
  intro t ht
  simpa using h t ht

theorem section_first_wins : SectionFirstWinsStmt := by
  intro pre post s h
  unfold getSection
  rw [List.find?_append, find_none_of_ne pre s.id h]
  simp

theorem section_missing : SectionMissingStmt := by
  intro ss id h
  unfold getSection
  rw [find_none_of_ne ss id h]

theorem find_nodup (ss : List Section) (id : Nat) (hn : (ss.map (·.id)).Nodup) (s : Section) :
    ss.find? (fun s => s.id == id) = some s ↔ s ∈ ss ∧ s.id = id := by
  induction ss with
  | nil => simp
  | cons t ts ih =>
    rw [List.map_cons, List.nodup_cons] at hn
    rw [List.find?_cons]
    by_cases ht : t.id = id
    · simp only [ht, beq_self_eq_true, Option.some.injEq, List.mem_cons]
      constructor
      · intro e; subst e; exact ⟨Or.inl rfl, ht⟩
      · rintro ⟨h | h, hs⟩
        · exact h.symm
        · exfalso
          apply hn.1
          rw [ht, ← hs]
          exact List.mem_map.mpr ⟨s, h, rfl⟩
    · have : (t.id == id) = false := by simpa using ht
      simp only [this, List.mem_cons]
      rw [ih hn.2]
      constructor
      · rintro ⟨h, hs⟩; exact ⟨Or.inr h, hs⟩
      · rintro ⟨h | h, hs⟩
        · subst h; exact absurd hs ht
        · exact ⟨h, hs⟩

theorem section_order_irrelevant : SectionOrderIrrelevantStmt := by
  intro ss ss' hp hn id
  have hn' : (ss'.map (·.id)).Nodup := (hp.map _).nodup_iff.mp hn
  have key : ss.find? (fun s => s.id == id) = ss'.find? (fun s => s.id == id) := by
    apply Option.ext
    intro s
    rw [find_nodup ss id hn s, find_nodup ss' id hn' s, hp.mem_iff]
  unfold getSection
  rw [key]

/-! ## coefficient values -/

theorem coef_value_canonical : CoefValueCanonicalStmt := by
  intro raw
  exact Nat.mod_lt _ P_pos

theorem rinv2_spec : RInv2 * ((2 ^ 256 % P) * (2 ^ 256 % P) % P) % P = 1 := by decide +kernel

theorem coef_value : CoefValueStmt := by
  intro raw
  unfold coefValue
  generalize hR : 2 ^ 256 % P = R
  have h := rinv2_spec
  rw [hR] at h
  calc raw * RInv2 % P * R % P * R % P
      = (raw * RInv2 % P * R) * R % P := by rw [Nat.mod_mul_mod]
    _ = (raw * RInv2 % P) * (R * R) % P := by rw [Nat.mul_assoc]
    _ = (raw * RInv2) * (R * R) % P := by rw [Nat.mod_mul_mod]
    _ = raw * (RInv2 * (R * R)) % P := by rw [Nat.mul_assoc]
    _ = raw * (RInv2 * (R * R) % P) % P := by rw [Nat.mul_mod_mod]
    _ = raw * (RInv2 * (R * R % P) % P) % P := by rw [Nat.mul_mod_mod RInv2]
    _ = raw % P := by rw [h, Nat.mul_one]

/-! ## cursor -/

theorem cursor_read_ok (data : Bytes) (p n : Nat) (h : p + n ≤ data.length) :
    (Cur.at data p).read n = .ok ((data.drop p).take n, Cur.at data (p + n)) := by
  unfold Cur.read Cur.at
  simp only [List.length_take, List.length_drop, List.drop_drop]
  rw [if_pos (by omega)]

/-- the error half of `CursorReadStmt` holds for every read of at least one byte -/
theorem cursor_read_err (data : Bytes) (p n : Nat) (hn : 0 < n) (h : data.length < p + n) :
    (Cur.at data p).read n = .err := by
  unfold Cur.read Cur.at
  simp only [List.length_take, List.length_drop]
  rw [if_neg (by omega)]

theorem cursor_read : CursorReadStmt :=
  fun data p n => ⟨cursor_read_ok data p n, cursor_read_err data p n⟩

/-- `CursorReadStmtOriginal` is FALSE as written: a read of zero bytes at a position beyond the end succeeds
    (`data = []`, `p = 1`, `n = 0`), in the model as in `read_exact` on a `Cursor` -/
theorem cursor_read_false : ¬ CursorReadStmtOriginal := by
  intro h
  have := (h [] 1 0).2 (by decide)
  simp [Cur.read, Cur.at] at this

/-! ## the record loop of `matrices()` -/

theorem getBang_modify {α} [Inhabited α] (a : Array α) (i r : Nat) (f : α → α) (hr : r < a.size) :
    (a.modify i f)[r]! = if i = r then f a[r]! else a[r]! := by
  rw [getElem!_pos _ r (by simpa using hr), getElem!_pos a r hr, Array.getElem_modify]

theorem rowOf_cons (m r : Nat) (k : Coef) (ks : List Coef) :
    rowOf m r (k :: ks) = if k.matrix = m ∧ k.constraint = r then (coefValue k.raw, k.signal) :: rowOf m r ks else rowOf m r ks := by
  unfold rowOf
  rw [List.filter_cons]
  split <;> simp_all

theorem pushAll_ok (n : Nat) (ks : List Coef) : ∀ (a0 b0 : Rows), a0.size = n → b0.size = n →
    (∀ k ∈ ks, k.matrix < 2 ∧ k.constraint < n) →
    ∃ a b : Rows, pushAll ks (a0, b0) = .ok (a, b) ∧ a.size = n ∧ b.size = n ∧
      ∀ r, r < n → a[r]! = a0[r]! ++ rowOf 0 r ks ∧ b[r]! = b0[r]! ++ rowOf 1 r ks := by
  induction ks with
  | nil =>
    intro a0 b0 ha hb _
    exact ⟨a0, b0, rfl, ha, hb, fun r _ => by simp [rowOf]⟩
  | cons k ks ih =>
    intro a0 b0 ha hb h
    have hk := h k (List.mem_cons_self)
    have hks : ∀ k ∈ ks, k.matrix < 2 ∧ k.constraint < n := fun t ht => h t (List.mem_cons_of_mem _ ht)
    by_cases hm : k.matrix = 0
    · have hp : pushCoef (a0, b0) k = .ok (a0.modify k.constraint (· ++ [(coefValue k.raw, k.signal)]), b0) := by
        unfold pushCoef
        rw [if_pos hm, if_pos (by simpa [ha] using hk.2)]
      obtain ⟨a, b, he, hsa, hsb, hr⟩ := ih (a0.modify k.constraint (· ++ [(coefValue k.raw, k.signal)])) b0 (by rw [Array.size_modify]; exact ha) hb hks
      refine ⟨a, b, ?_, hsa, hsb, ?_⟩
      · simp only [pushAll, hp]; exact he
      · intro r hrn
        obtain ⟨h1, h2⟩ := hr r hrn
        rw [h1, h2, getBang_modify _ _ _ _ (by omega), rowOf_cons, rowOf_cons]
        constructor
        · by_cases hc : k.constraint = r <;> simp [hc, hm]
        · simp [hm]
    · have hm1 : k.matrix = 1 := by omega
      have hp : pushCoef (a0, b0) k = .ok (a0, b0.modify k.constraint (· ++ [(coefValue k.raw, k.signal)])) := by
        unfold pushCoef
        rw [if_neg hm, if_pos hm1, if_pos (by simpa [hb] using hk.2)]
      obtain ⟨a, b, he, hsa, hsb, hr⟩ := ih a0 (b0.modify k.constraint (· ++ [(coefValue k.raw, k.signal)])) ha (by rw [Array.size_modify]; exact hb) hks
      refine ⟨a, b, ?_, hsa, hsb, ?_⟩
      · simp only [pushAll, hp]; exact he
      · intro r hrn
        obtain ⟨h1, h2⟩ := hr r hrn
        rw [h1, h2, getBang_modify _ _ _ _ (by omega), rowOf_cons, rowOf_cons]
        constructor
        · simp [hm1]
        · by_cases hc : k.constraint = r <;> simp [hc, hm1]

theorem pushAll_panic (n : Nat) (ks : List Coef) : ∀ (a0 b0 : Rows), a0.size = n → b0.size = n →
    (∃ k ∈ ks, ¬ (k.matrix < 2 ∧ k.constraint < n)) → pushAll ks (a0, b0) = .panic := by
  induction ks with
  | nil => intro a0 b0 _ _ h; obtain ⟨k, hk, _⟩ := h; cases hk
  | cons k ks ih =>
    intro a0 b0 ha hb h
    by_cases hk : k.matrix < 2 ∧ k.constraint < n
    · have hks : ∃ k ∈ ks, ¬ (k.matrix < 2 ∧ k.constraint < n) := by
        obtain ⟨t, ht, hbad⟩ := h
        rcases List.mem_cons.mp ht with e | ht
        · subst e; exact absurd hk hbad
        · exact ⟨t, ht, hbad⟩
      by_cases hm : k.matrix = 0
      · have hp : pushCoef (a0, b0) k = .ok (a0.modify k.constraint (· ++ [(coefValue k.raw, k.signal)]), b0) := by
          unfold pushCoef
          rw [if_pos hm, if_pos (by simpa [ha] using hk.2)]
        simp only [pushAll, hp]
        exact ih _ b0 (by rw [Array.size_modify]; exact ha) hb hks
      · have hm1 : k.matrix = 1 := by omega
        have hp : pushCoef (a0, b0) k = .ok (a0, b0.modify k.constraint (· ++ [(coefValue k.raw, k.signal)])) := by
          unfold pushCoef
          rw [if_neg hm, if_pos hm1, if_pos (by simpa [hb] using hk.2)]
        simp only [pushAll, hp]
        exact ih a0 _ ha (by rw [Array.size_modify]; exact hb) hks
    · have hp : pushCoef (a0, b0) k = .panic := by
        unfold pushCoef
        by_cases hm : k.matrix = 0
        · rw [if_pos hm, if_neg (by simp only [ha]; omega)]
        · rw [if_neg hm]
          by_cases hm1 : k.matrix = 1
          · rw [if_pos hm1, if_neg (by simp only [hb]; omega)]
          · rw [if_neg hm1]
      simp only [pushAll, hp]

theorem push_all_spec : PushAllSpecStmt := by
  intro n ks
  constructor
  · intro h
    obtain ⟨a, b, he, hsa, hsb, hr⟩ := pushAll_ok n ks (Array.replicate n []) (Array.replicate n []) (by simp) (by simp) h
    refine ⟨a, b, he, hsa, hsb, ?_⟩
    intro r hrn
    have := hr r hrn
    have e : (Array.replicate n ([] : List (Nat × Nat)))[r]! = [] := by
      rw [getElem!_pos _ r (by simpa using hrn), Array.getElem_replicate]
    rw [e] at this
    simpa using this
  · exact pushAll_panic n ks _ _ (by simp) (by simp)

theorem wsub_eq (a b : Nat) (h : b ≤ a) (ha : a < 2 ^ 64) : wsub a b = a - b := by
  unfold wsub
  omega

theorem take_toList_getBang {α} [Inhabited α] (a : Array α) (m r : Nat) (hr : r < m) (hra : r < a.size) :
    (a.toList.take m)[r]! = a[r]! := by
  have hl : r < (a.toList.take m).length := by
    rw [List.length_take, Array.length_toList]; omega
  rw [getElem!_pos (a.toList.take m) r hl, getElem!_pos a r hra, List.getElem_take, Array.getElem_toList]

theorem build_matrices : BuildMatricesStmt := by
  intro hd ks h hle hlt
  obtain ⟨a, b, he, hsa, hsb, hr⟩ := push_all_spec hd.domainSize ks |>.1 h
  unfold buildMatrices
  rw [he]
  refine ⟨_, rfl, ?_⟩
  simp only [wsub_eq _ _ hle hlt, List.length_take, Array.length_toList, hsa, hsb, true_and]
  intro r hrn
  have hr1 : r < hd.domainSize := by omega
  have hr2 : r < maxConstraint ks - hd.nPublic := by omega
  obtain ⟨h1, h2⟩ := hr r hr1
  rw [← h1, ← h2, take_toList_getBang a _ r hr2 (by omega), take_toList_getBang b _ r hr2 (by omega)]
  exact ⟨rfl, rfl⟩

end Zk.Zkey
