import ZkModel.Par
import ZkProofs.Lemmas.TreeDefs
/-!
# Statements for C18 (schedule independence, retry bound) and C17 (all backends agree)
-/
namespace Zk.Par
open Zk.Tree

variable {α : Type} [Inhabited α]

/-- the sequential model returns the schedule-free value, and its final map is what ANY completion
    order of the tasks' writes produces -/
def BatchRecalcScheduleFreeStmt (S : Type) [MapLike S (Nat × Nat) α] (H : α → α → α) : Prop :=
  ∀ (f d i : Nat) (sub0 sub' : S) (v : α) (ks ks' : List (Nat × Nat)),
    Pm.batchRecalc H f d i sub0 ks = some (v, sub', ks') →
    valOf H sub0 f d i = some v ∧ ks' = ks ∧
    ∀ (order : List ((Nat × Nat) × α)), order.Perm (writesOf H sub0 f d i) →
      ∀ k, MapLike.get? (applyWrites sub0 order) k = MapLike.get? sub' k

/-- every task writes a different key, and no task reads a key that some task writes: the keys
    written are inner keys (left child present), the keys read from the map are those without one -/
def DisjointWritesStmt (S : Type) [MapLike S (Nat × Nat) α] (H : α → α → α) : Prop :=
  ∀ (f d i : Nat) (sub0 : S), ((writesOf H sub0 f d i).map (·.1)).Nodup ∧
    ∀ w ∈ writesOf H sub0 f d i, ∃ x, MapLike.get? sub0 (w.1.1 + 1, 2 * w.1.2) = some x

/-- cell-wise fills do not depend on the order in which the cells are visited -/
def ParFillStmt : Prop :=
  ∀ {β : Type} (f : Nat → β) (o1 o2 : List Nat) (v : Array β), o1.Perm o2 → parFill f o1 v = parFill f o2 v

def ParFillSpecStmt : Prop :=
  ∀ {β : Type} [Inhabited β] (f : Nat → β) (order : List Nat) (v : Array β) (j : Nat), j < v.size →
    (parFill f order v)[j]! = if j ∈ order then f j else v[j]!

end Zk.Par

namespace Zk.Retry

/-- at most ten attempts; success exactly when some attempt `k < 10` succeeds after only busy
    answers; any other error stops at once; the time slept before attempt `k` is 10^0 + … + 10^(k-1) ms -/
def RetryStmt : Prop :=
  ∀ outcomes : Nat → OpenResult,
    let r := open_ outcomes
    r.attempts ≤ 10 ∧
    (r.success = true ↔ ∃ k, k < 10 ∧ outcomes k = .ok ∧ ∀ j, j < k → outcomes j = .wouldBlock) ∧
    (r.success = true → r.sleptMs = (10 ^ (r.attempts - 1) - 1) / 9) ∧
    r.sleptMs ≤ 1111111111

end Zk.Retry
