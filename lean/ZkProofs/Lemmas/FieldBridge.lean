import ZkModel.Basic
import Mathlib.NumberTheory.LucasPrimality
import Mathlib.Tactic.NormNum.Prime
import Mathlib.FieldTheory.Finite.Basic
import Mathlib.Data.ZMod.Basic
import Mathlib.Tactic.Ring
/-!
# Bridge between the `Nat`-level field arithmetic of `ZkModel.Basic` and `ZMod P`

* `powMod` (fuelled square-and-multiply) is modular exponentiation (`powMod_eq`);
* `P` is prime (Lucas/Pratt certificate, kernel-evaluated `powMod`);
* Fermat: `fmul b (finv b) = 1` for canonical non-zero `b`.
-/
namespace Zk

theorem powModAux_cast (m : ℕ) : ∀ (fuel b e acc : ℕ), e < 2^fuel →
    ((powModAux fuel b e m acc : ℕ) : ZMod m) = (acc : ZMod m) * (b : ZMod m)^e := by
  intro fuel
  induction fuel with
  | zero => intro b e acc h; have : e = 0 := by omega
            subst this; simp [powModAux]
  | succ n ih =>
    intro b e acc h
    unfold powModAux
    by_cases he : e = 0
    · simp [he]
    · simp only [he, if_false]
      have h2 : e / 2 < 2^n := by
        have : 2^(n+1) = 2 * 2^n := by rw [pow_succ]; ring
        omega
      rw [ih _ _ _ h2]
      have hb : ((b*b % m : ℕ) : ZMod m) = (b : ZMod m) * b := by
        rw [ZMod.natCast_mod]; push_cast; ring
      rw [hb]
      have hdecomp : e = 2 * (e/2) + e % 2 := by omega
      by_cases hodd : e % 2 = 1
      · simp only [hodd, if_true]
        rw [ZMod.natCast_mod]; push_cast
        conv_rhs => rw [hdecomp, hodd]
        rw [pow_succ, pow_mul]; ring
      · simp only [hodd, if_false]
        have : e % 2 = 0 := by omega
        conv_rhs => rw [hdecomp, this]
        rw [Nat.add_zero, pow_mul]; ring

theorem powMod_cast (b e m : ℕ) (he : e < 2^256) :
    ((powMod b e m : ℕ) : ZMod m) = (b : ZMod m)^e := by
  unfold powMod
  rw [powModAux_cast m 256 _ _ _ he, ZMod.natCast_mod, ZMod.natCast_mod]
  simp

theorem prime_of_cert (p g : ℕ) (fs : List (ℕ × ℕ)) (hp : 1 < p) (hlt : p < 2^256)
    (hL : ∀ x ∈ fs, x.1.Prime)
    (hprod : (fs.map (fun x => x.1 ^ x.2)).prod = p - 1)
    (h1 : powMod g (p-1) p = 1)
    (h2 : ∀ x ∈ fs, powMod g ((p-1)/x.1) p % p ≠ 1) : p.Prime := by
  have hlt' : ∀ k, k ≤ p → k < 2^256 := fun k hk => lt_of_le_of_lt hk hlt
  apply lucas_primality p (g : ZMod p)
  · rw [← powMod_cast g (p-1) p (hlt' _ (Nat.sub_le _ _)), h1]; simp
  · intro q hq hdvd
    rw [← hprod] at hdvd
    obtain ⟨a, ha, hqa⟩ := (Prime.dvd_prod_iff (Nat.prime_iff.mp hq)).mp hdvd
    obtain ⟨x, hx, rfl⟩ := List.mem_map.mp ha
    have hqx : q ∣ x.1 := hq.dvd_of_dvd_pow hqa
    have hqeq : q = x.1 := (Nat.prime_dvd_prime_iff_eq hq (hL x hx)).mp hqx
    subst hqeq
    intro hcontra
    apply h2 x hx
    have hc := powMod_cast g ((p-1)/x.1) p (hlt' _ (le_trans (Nat.div_le_self _ _) (Nat.sub_le _ _)))
    rw [hcontra] at hc
    have : ((powMod g ((p - 1) / x.1) p : ℕ) : ZMod p) = ((1 : ℕ) : ZMod p) := by rw [hc]; simp
    rw [ZMod.natCast_eq_natCast_iff'] at this
    rw [Nat.mod_eq_of_lt hp] at this
    exact this

set_option maxRecDepth 100000

macro "small_prime" : tactic => `(tactic| norm_num)

theorem prime_5501 : Nat.Prime 5501 := by norm_num
theorem prime_11003 : Nat.Prime 11003 := by norm_num
theorem prime_4999 : Nat.Prime 4999 := by norm_num
theorem prime_3691 : Nat.Prime 3691 := by norm_num
theorem prime_1637 : Nat.Prime 1637 := by norm_num

theorem prime_237073 : Nat.Prime 237073 :=
  prime_of_cert 237073 15 [(2,4),(3,1),(11,1),(449,1)] (by norm_num) (by norm_num)
    (by intro x hx; simp at hx; rcases hx with rfl|rfl|rfl|rfl <;> norm_num)
    (by decide +kernel) (by decide +kernel) (by decide +kernel)

theorem prime_405928799 : Nat.Prime 405928799 :=
  prime_of_cert 405928799 22 [(2,1),(11,1),(4999,1),(3691,1)] (by norm_num) (by norm_num)
    (by intro x hx; simp at hx; rcases hx with rfl|rfl|rfl|rfl <;> first | exact prime_4999 | exact prime_3691 | norm_num)
    (by decide +kernel) (by decide +kernel) (by decide +kernel)

theorem prime_93001 : Nat.Prime 93001 :=
  prime_of_cert 93001 14 [(2,3),(3,1),(5,3),(31,1)] (by norm_num) (by norm_num)
    (by intro x hx; simp at hx; rcases hx with rfl|rfl|rfl|rfl <;> norm_num)
    (by decide +kernel) (by decide +kernel) (by decide +kernel)

theorem prime_12048837557 : Nat.Prime 12048837557 :=
  prime_of_cert 12048837557 2 [(2,2),(7,2),(661,1),(93001,1)] (by norm_num) (by norm_num)
    (by intro x hx; simp at hx; rcases hx with rfl|rfl|rfl|rfl <;> first | exact prime_93001 | norm_num)
    (by decide +kernel) (by decide +kernel) (by decide +kernel)

theorem prime_5156902474397 : Nat.Prime 5156902474397 :=
  prime_of_cert 5156902474397 2 [(2,2),(107,1),(12048837557,1)] (by norm_num) (by norm_num)
    (by intro x hx; simp at hx; rcases hx with rfl|rfl|rfl <;> first | exact prime_12048837557 | norm_num)
    (by decide +kernel) (by decide +kernel) (by decide +kernel)

theorem prime_1670836401704629 : Nat.Prime 1670836401704629 :=
  prime_of_cert 1670836401704629 2 [(2,2),(3,4),(5156902474397,1)] (by norm_num) (by norm_num)
    (by intro x hx; simp at hx; rcases hx with rfl|rfl|rfl <;> first | exact prime_5156902474397 | norm_num)
    (by decide +kernel) (by decide +kernel) (by decide +kernel)

theorem prime_20963 : Nat.Prime 20963 :=
  prime_of_cert 20963 2 [(2,1),(47,1),(223,1)] (by norm_num) (by norm_num)
    (by intro x hx; simp at hx; rcases hx with rfl|rfl|rfl <;> norm_num)
    (by decide +kernel) (by decide +kernel) (by decide +kernel)

theorem prime_41927 : Nat.Prime 41927 :=
  prime_of_cert 41927 5 [(2,1),(20963,1)] (by norm_num) (by norm_num)
    (by intro x hx; simp at hx; rcases hx with rfl|rfl <;> first | exact prime_20963 | norm_num)
    (by decide +kernel) (by decide +kernel) (by decide +kernel)

theorem prime_1593227 : Nat.Prime 1593227 :=
  prime_of_cert 1593227 2 [(2,1),(19,1),(41927,1)] (by norm_num) (by norm_num)
    (by intro x hx; simp at hx; rcases hx with rfl|rfl|rfl <;> first | exact prime_41927 | norm_num)
    (by decide +kernel) (by decide +kernel) (by decide +kernel)

theorem prime_639533339 : Nat.Prime 639533339 :=
  prime_of_cert 639533339 2 [(2,1),(229,1),(853,1),(1637,1)] (by norm_num) (by norm_num)
    (by intro x hx; simp at hx; rcases hx with rfl|rfl|rfl|rfl <;> first | exact prime_1637 | norm_num)
    (by decide +kernel) (by decide +kernel) (by decide +kernel)

theorem prime_65865678001877903 : Nat.Prime 65865678001877903 :=
  prime_of_cert 65865678001877903 5 [(2,1),(83,1),(379,1),(1637,1),(639533339,1)] (by norm_num) (by norm_num)
    (by intro x hx; simp at hx; rcases hx with rfl|rfl|rfl|rfl|rfl <;> first | exact prime_1637 | exact prime_639533339 | norm_num)
    (by decide +kernel) (by decide +kernel) (by decide +kernel)

theorem prime_13818364434197438864469338081 : Nat.Prime 13818364434197438864469338081 :=
  prime_of_cert 13818364434197438864469338081 3 [(2,5),(5,1),(823,1),(1593227,1),(65865678001877903,1)] (by norm_num) (by norm_num)
    (by intro x hx; simp at hx; rcases hx with rfl|rfl|rfl|rfl|rfl <;> first | exact prime_1593227 | exact prime_65865678001877903 | norm_num)
    (by decide +kernel) (by decide +kernel) (by decide +kernel)

/-- The BN254 scalar field modulus is prime. -/
theorem prime_bn254_r : Nat.Prime 21888242871839275222246405745257275088548364400416034343698204186575808495617 :=
  prime_of_cert 21888242871839275222246405745257275088548364400416034343698204186575808495617 5
    [(2,28),(3,2),(13,1),(29,1),(983,1),(11003,1),(237073,1),(405928799,1),(1670836401704629,1),(13818364434197438864469338081,1)]
    (by norm_num) (by norm_num)
    (by intro x hx; simp at hx
        rcases hx with rfl|rfl|rfl|rfl|rfl|rfl|rfl|rfl|rfl|rfl <;>
          first | exact prime_11003 | exact prime_237073 | exact prime_405928799 | exact prime_1670836401704629
                | exact prime_13818364434197438864469338081 | norm_num)
    (by decide +kernel) (by decide +kernel) (by decide +kernel)


theorem P_prime : Nat.Prime Zk.P := prime_bn254_r

instance : Fact (Nat.Prime P) := ⟨P_prime⟩

theorem powModAux_lt (m : Nat) (hm : 0 < m) : ∀ (fuel b e acc : Nat), acc < m →
    powModAux fuel b e m acc < m := by
  intro fuel
  induction fuel with
  | zero => intro b e acc h; simpa [powModAux] using h
  | succ n ih =>
    intro b e acc h
    unfold powModAux
    split
    · exact h
    · apply ih
      split
      · exact Nat.mod_lt _ hm
      · exact h

theorem powMod_lt (b e m : Nat) (hm : 1 < m) : powMod b e m < m := by
  unfold powMod
  exact powModAux_lt m (by omega) _ _ _ _ (Nat.mod_lt _ (by omega))

theorem powMod_eq (b e m : Nat) (he : e < 2^256) (hm : 1 < m) : powMod b e m = b ^ e % m := by
  have h := powMod_cast b e m he
  have h2 : ((powMod b e m : ℕ) : ZMod m) = ((b ^ e : ℕ) : ZMod m) := by rw [h]; push_cast; rfl
  rw [ZMod.natCast_eq_natCast_iff'] at h2
  rw [← h2]
  exact (Nat.mod_eq_of_lt (powMod_lt b e m hm)).symm

theorem P_gt_two : 2 < P := by decide
theorem P_lt_pow : P < 2 ^ 256 := by decide

/-- Fermat: the model's `finv` is the field inverse on canonical non-zero elements. -/
theorem finv_mul (b : Nat) (hb : b < P) (h0 : b ≠ 0) : fmul b (finv b) = 1 := by
  have hne : (b : ZMod P) ≠ 0 := by
    intro h
    rw [ZMod.natCast_eq_zero_iff] at h
    exact h0 (Nat.eq_zero_of_dvd_of_lt h hb)
  have hf := ZMod.pow_card_sub_one_eq_one hne
  have hc : ((fmul b (finv b) : ℕ) : ZMod P) = ((1 : ℕ) : ZMod P) := by
    unfold fmul finv
    rw [ZMod.natCast_mod, Nat.cast_mul, powMod_cast b (P - 2) P (by have := P_lt_pow; omega),
      ← pow_succ', Nat.cast_one, ← hf]
    congr 1
  rw [ZMod.natCast_eq_natCast_iff'] at hc
  have h1 : fmul b (finv b) < P := Nat.mod_lt _ P_pos
  rw [Nat.mod_eq_of_lt h1, Nat.mod_eq_of_lt (by have := P_gt_two; omega)] at hc
  exact hc

/-! ## casting the `Nat` operations into the field `ZMod P` -/

theorem cast_fadd (a b : Nat) : ((fadd a b : ℕ) : ZMod P) = (a : ZMod P) + b := by
  unfold fadd; rw [ZMod.natCast_mod]; push_cast; rfl

theorem cast_fmul (a b : Nat) : ((fmul a b : ℕ) : ZMod P) = (a : ZMod P) * b := by
  unfold fmul; rw [ZMod.natCast_mod]; push_cast; rfl

theorem cast_fsub (a b : Nat) : ((fsub a b : ℕ) : ZMod P) = (a : ZMod P) - b := by
  unfold fsub
  have hle : b % P ≤ P := Nat.le_of_lt (Nat.mod_lt _ P_pos)
  rw [ZMod.natCast_mod, Nat.cast_add, Nat.cast_sub hle, ZMod.natCast_self, ZMod.natCast_mod]
  ring

theorem cast_finv (b : Nat) : ((finv b : ℕ) : ZMod P) = (b : ZMod P)⁻¹ := by
  unfold finv
  rw [powMod_cast b (P - 2) P (by have := P_lt_pow; omega)]
  by_cases h : (b : ZMod P) = 0
  · rw [h, inv_zero, zero_pow (by decide)]
  · have hf := ZMod.pow_card_sub_one_eq_one h
    have : (b : ZMod P) * (b : ZMod P) ^ (P - 2) = 1 := by
      rw [← pow_succ', ← hf]; congr 1
    exact (eq_inv_of_mul_eq_one_right this)

theorem cast_fdiv (a b : Nat) : ((fdiv a b : ℕ) : ZMod P) = (a : ZMod P) / b := by
  unfold fdiv; rw [cast_fmul, cast_finv, div_eq_mul_inv]

theorem eq_of_cast_eq {a b : Nat} (ha : a < P) (hb : b < P) (h : (a : ZMod P) = (b : ZMod P)) : a = b := by
  rw [ZMod.natCast_eq_natCast_iff'] at h
  rwa [Nat.mod_eq_of_lt ha, Nat.mod_eq_of_lt hb] at h

theorem cast_ne_of_ne {a b : Nat} (ha : a < P) (hb : b < P) (h : a ≠ b) : (a : ZMod P) ≠ (b : ZMod P) :=
  fun hc => h (eq_of_cast_eq ha hb hc)

theorem fsub_lt (a b : Nat) : fsub a b < P := Nat.mod_lt _ P_pos
theorem fadd_lt (a b : Nat) : fadd a b < P := Nat.mod_lt _ P_pos
theorem fmul_lt (a b : Nat) : fmul a b < P := Nat.mod_lt _ P_pos

end Zk
