import ZkProofs.Lemmas.PmRun
/-!
# Statements about persistence and injected storage failures (C16)

The store is the finite map of `ZkModel/Tree/Pm.lean` with a failure schedule: the write whose
sequence number equals `failAt` fails (that is what hook H1 does to `SledDB::put / put_batch / close`).
-/
namespace Zk.Tree

variable {α : Type} [Inhabited α] {D : Type} [MapLike D PmKey (PmVal α)]

/-- what a reopened tree shows of the ideal tree `s`: everything but the in-memory flag cache -/
structure Pm.Reopened (H : α → α → α) (dflt : α) (t : Pm α D) (s : Ideal α) : Prop where
  depth : t.depth = s.depth
  next : t.next = s.next
  root : t.root = s.root H dflt
  leaves : ∀ i, i < 2 ^ t.depth → t.getElem t.depth i = s.leaf dflt i
  nodes : ∀ l i, l ≤ t.depth → i < 2 ^ l → t.getElem l i = s.node H dflt l i

/-- (a) reopening a tree that refines `s` (no failure injected) shows `s` again: root, leaves, every
    node, high-water mark and depth come back from the store, whatever depth the caller passes -/
def Pm.ReopenStmt (D : Type) [MapLike D PmKey (PmVal α)] (H : α → α → α) (dflt : α) : Prop :=
  ∀ (t : Pm α D) (s : Ideal α) (argDepth : Nat), Pm.Rel H dflt t s →
    t.cache = (Pm.mkCache H dflt t.depth [dflt]).toArray →
    Pm.Reopened H dflt (Pm.load H dflt argDepth { kv := t.db.kv }) s

/-- … and, reopened with the same depth, it again satisfies the invariant of the refinement, with an
    all-empty flag cache (open finding C15-pm-reopen-flags), so it continues to behave like the ideal tree
    for roots, leaves and proofs -/
def Pm.ReopenInvStmt (D : Type) [MapLike D PmKey (PmVal α)] (H : α → α → α) (dflt : α) : Prop :=
  ∀ (t : Pm α D) (s : Ideal α), Pm.Rel H dflt t s →
    t.cache = (Pm.mkCache H dflt t.depth [dflt]).toArray →
    Pm.Inv H (Pm.load H dflt t.depth { kv := t.db.kv })

/-- the default-node cache is the one `load` recomputes, in every reachable state -/
def Pm.CacheStmt (D : Type) [MapLike D PmKey (PmVal α)] (S : Type) [MapLike S (Nat × Nat) α]
    (H : α → α → α) (dflt : α) : Prop :=
  (∀ d, ((Pm.new (D := D) H dflt d { kv := MapLike.empty }).1).cache = (Pm.mkCache H dflt d [dflt]).toArray) ∧
  (∀ (t : Pm α D) (op : TreeOp α), op ≠ .reset → (Pm.applyOp S H dflt t op).1.cache = t.cache ∧
      (Pm.applyOp S H dflt t op).1.depth = t.depth)

/-- metadata survives reopening -/
def Pm.MetadataStmt (D : Type) [MapLike D PmKey (PmVal α)] [LawfulMapLike D PmKey (PmVal α)]
    (H : α → α → α) (dflt : α) : Prop :=
  ∀ (t : Pm α D) (md : List UInt8) (argDepth : Nat), t.db.failAt = none →
    let r := Pm.setMetadata md t
    r.2 = .ok () ∧ Pm.getMetadata r.1 = md ∧
    Pm.getMetadata (Pm.load H dflt argDepth { kv := r.1.db.kv }) = md

/-- the mutating calls that write to the store -/
inductive PmCall (α : Type) where
  | op (o : TreeOp α)
  | setMetadata (md : List UInt8)
  | flush

def Pm.call (S : Type) [MapLike S (Nat × Nat) α] (H : α → α → α) (dflt : α) (t : Pm α D) :
    PmCall α → Pm α D × Outcome Unit
  | .op o => Pm.applyOp S H dflt t o
  | .setMetadata md => Pm.setMetadata md t
  | .flush => Pm.flush t

/-- (b) a storage failure inside an operation is reported: with the failure armed at write number
    `f` and not yet reached, an operation that returns `Ok` did not reach it either -/
def Pm.FailureReportedStmt (D : Type) [MapLike D PmKey (PmVal α)] (S : Type) [MapLike S (Nat × Nat) α]
    (H : α → α → α) (dflt : α) : Prop :=
  ∀ (t : Pm α D) (c : PmCall α) (f : Nat), c ≠ .op .reset → t.db.failAt = some f → t.db.calls ≤ f →
    let r := Pm.call S H dflt t c
    r.1.db.failAt = some f ∧ t.db.calls ≤ r.1.db.calls ∧ (r.2 = .ok () → r.1.db.calls ≤ f)

/-- positions an operation addresses -/
def addressed (t : Pm α D) : PmCall α → Nat → Prop
  | .op (.set i _), p => p = i
  | .op (.delete i), p => p = i
  | .op (.append _), p => p = t.next
  | .op (.setRange start vs), p => start ≤ p ∧ p < start + vs.length
  | .op (.batch start vs rem), p => (start ≤ p ∧ p < start + vs.length) ∨
      (rem ≠ [] ∧ ∃ lo hi, lo ∈ (start :: rem) ∧ hi ∈ ((start + vs.length) :: rem) ∧ lo ≤ p ∧ p ≤ hi)
  | .op .reset, _ => True
  | .setMetadata _, _ => False
  | .flush, _ => False

/-- (c) whatever happens (success, rejection or an injected failure at any point), an operation
    changes the *stored* leaf only at positions it addresses; the stored depth never changes -/
def Pm.LeafFrameStmt (D : Type) [MapLike D PmKey (PmVal α)] [LawfulMapLike D PmKey (PmVal α)]
    (S : Type) [MapLike S (Nat × Nat) α] [LawfulMapLike S (Nat × Nat) α]
    (H : α → α → α) (dflt : α) : Prop :=
  ∀ (t : Pm α D) (c : PmCall α) (p : Nat), 0 < t.depth → ¬ addressed t c p →
    let r := Pm.call S H dflt t c
    MapLike.get? r.1.db.kv (PmKey.node t.depth p) = MapLike.get? t.db.kv (PmKey.node t.depth p) ∧
    MapLike.get? r.1.db.kv PmKey.depthKey = MapLike.get? t.db.kv PmKey.depthKey

/-- … hence every acknowledged leaf outside the failed operation's positions is what a reopened tree reads -/
def Pm.AckedPreservedStmt (D : Type) [MapLike D PmKey (PmVal α)] [LawfulMapLike D PmKey (PmVal α)]
    (S : Type) [MapLike S (Nat × Nat) α] [LawfulMapLike S (Nat × Nat) α]
    (H : α → α → α) (dflt : α) : Prop :=
  ∀ (t : Pm α D) (s : Ideal α) (c : PmCall α) (f : Nat) (argDepth p : Nat),
    Pm.Rel H dflt { t with db := { t.db with failAt := none } } s →
    t.cache = (Pm.mkCache H dflt t.depth [dflt]).toArray →
    c ≠ .op .reset → p < 2 ^ t.depth → ¬ addressed t c p →
    let t' := Pm.load H dflt argDepth { kv := (Pm.call S H dflt { t with db := { t.db with failAt := some f } } c).1.db.kv }
    t'.depth = s.depth ∧ t'.getElem t'.depth p = s.leaf dflt p

end Zk.Tree
