import ZkModel.Graph.Ops
/-!
# Statements proved about the witness-graph operators (C19)

Kept apart from the proofs. `FrCovered` / `IntCovered` are the complements of the open findings
(known_findings.txt: C19-shift-count-above-half, C19-montgomery-unimplemented,
C19-integer-evaluator); inside them the negations are proved at concrete witnesses.
-/
namespace Zk.Graph

/-- where the Montgomery evaluator is claimed to follow circom: everything except `Pow`
    (unimplemented) and shifts by a count above `p/2` (circom shifts the other way) -/
def FrCovered (op : Op) (b : Nat) : Prop :=
  op ≠ .Pow ∧ ((op = .Shl ∨ op = .Shr) → b ≤ P / 2)

/-- `eval_fr` returns circom's value, and that value is a canonical field element -/
def EvalFrSemStmt : Prop :=
  ∀ (op : Op) (a b : Nat), a < P → b < P → FrCovered op b →
    evalFr op a b = .ok (Circom.sem op a b) ∧ Circom.sem op a b < P

/-- no operand pair crashes the Montgomery evaluator (all operators it implements) -/
def EvalFrNoPanicStmt : Prop :=
  ∀ (op : Op) (a b : Nat), a < P → b < P → op ≠ .Pow → ∃ v, evalFr op a b = .ok v ∧ v < P

def EvalFrUnoStmt : Prop :=
  ∀ a : Nat, a < P → evalFrUno .Neg a = .ok (Circom.semUno .Neg a) ∧ Circom.semUno .Neg a < P

def EvalFrTresStmt : Prop :=
  ∀ a b c : Nat, a < P → b < P → c < P →
    evalFrTres .TernCond a b c = .ok (Circom.semTres .TernCond a b c) ∧ Circom.semTres .TernCond a b c < P

/-- the limb-level right shift (`while n >= 64` word moves, then the carry loop) is division by `2^n` -/
def ShrLimbsStmt : Prop :=
  ∀ a n : Nat, a < 2 ^ 256 → 0 < n → n < 254 → shrFr a n = .ok (a / 2 ^ n)

/-- limb-wise and/or/xor of the four 64-bit limbs is the operation on the integers -/
def LimbwiseStmt : Prop :=
  ∀ a b : Nat, a < 2 ^ 256 → b < 2 ^ 256 →
    ofLimbs (List.zipWith Nat.land (toLimbs a) (toLimbs b)) = a &&& b ∧
    ofLimbs (List.zipWith Nat.lor (toLimbs a) (toLimbs b)) = a ||| b ∧
    ofLimbs (List.zipWith Nat.xor (toLimbs a) (toLimbs b)) = a ^^^ b

/-- where the integer evaluator is claimed to agree with the Montgomery one -/
def IntCovered (op : Op) (a b : Nat) : Prop :=
  op ≠ .Pow ∧ op ≠ .Shl ∧ (op = .Shr → b < 254) ∧
  (op = .Bor → a ||| b < P) ∧ (op = .Bxor → a ^^^ b < P) ∧
  ((op = .Idiv ∨ op = .Mod) → b ≠ 0)

/-- the integer and the Montgomery evaluator agree wherever both are defined (inside `IntCovered`) -/
def EvalAgreeStmt : Prop :=
  ∀ (op : Op) (a b : Nat), a < P → b < P → IntCovered op a b →
    evalU op a b = evalFr op a b

def EvalAgreeUnoStmt : Prop :=
  ∀ a : Nat, a < P → evalUUno .Neg a = evalFrUno .Neg a

/-- the regenerated constants are the field's: `M = P`, `HALF_M = P / 2` -/
def ConstsStmt : Prop :=
  Zk.Generated.modulusM = some P ∧ Zk.Generated.halfM = some (P / 2)

/-- the four regenerated truth tables implement comparison of signed representatives -/
def SignedCmpStmt : Prop :=
  ∀ a b : Nat, a < P → b < P →
    signedCmp Zk.Generated.uLt a b = some (b2n (Circom.sval a < Circom.sval b)) ∧
    signedCmp Zk.Generated.uGt a b = some (b2n (Circom.sval a > Circom.sval b)) ∧
    signedCmp Zk.Generated.uLte a b = some (b2n (Circom.sval a ≤ Circom.sval b)) ∧
    signedCmp Zk.Generated.uGte a b = some (b2n (Circom.sval a ≥ Circom.sval b))

end Zk.Graph
