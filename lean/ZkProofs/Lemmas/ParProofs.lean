import ZkProofs.Lemmas.ParDefs
/-!
# Proofs for C18: schedule independence of `batch_recalculate`, cell-wise fills, retry bound
-/
set_option linter.unusedSectionVars false

namespace Zk.Par
open Zk.Tree

variable {α : Type} [Inhabited α]

/-! ## keys of the subtree below a node -/

/-- `k` is a key of the subtree rooted at `(d, i)` -/
def InSub (d i : Nat) (k : Nat × Nat) : Prop := d ≤ k.1 ∧ k.2 / 2 ^ (k.1 - d) = i

theorem inSub_self (d i : Nat) : InSub d i (d, i) := by
  simp [InSub]

theorem inSub_child_div (d : Nat) (k : Nat × Nat) (h : d + 1 ≤ k.1) :
    k.2 / 2 ^ (k.1 - d) = (k.2 / 2 ^ (k.1 - (d + 1))) / 2 := by
  have : k.1 - d = (k.1 - (d + 1)) + 1 := by omega
  rw [this, Nat.pow_succ, Nat.div_div_eq_div_mul]

theorem inSub_left (d i : Nat) (k : Nat × Nat) (h : InSub (d + 1) (2 * i) k) : InSub d i k := by
  obtain ⟨h1, h2⟩ := h
  refine ⟨by omega, ?_⟩
  rw [inSub_child_div d k h1, h2]; omega

theorem inSub_right (d i : Nat) (k : Nat × Nat) (h : InSub (d + 1) (2 * i + 1) k) : InSub d i k := by
  obtain ⟨h1, h2⟩ := h
  refine ⟨by omega, ?_⟩
  rw [inSub_child_div d k h1, h2]; omega

theorem inSub_disj (d i : Nat) (k : Nat × Nat) (h : InSub (d + 1) (2 * i) k)
    (h' : InSub (d + 1) (2 * i + 1) k) : False := by
  have := h.2; have := h'.2; omega

theorem inSub_child_ne (d i j : Nat) (h : InSub (d + 1) j (d, i)) : False := by
  have : d + 1 ≤ d := h.1
  omega

/-! ## `applyWrites` -/

section
variable {S : Type} [MapLike S (Nat × Nat) α] [LawfulMapLike S (Nat × Nat) α]

theorem applyWrites_nil (m : S) : applyWrites m ([] : List ((Nat × Nat) × α)) = m := rfl

theorem applyWrites_cons (m : S) (w : (Nat × Nat) × α) (ws) :
    applyWrites m (w :: ws) = applyWrites (MapLike.insert m w.1 w.2) ws := rfl

theorem applyWrites_append (m : S) (a b : List ((Nat × Nat) × α)) :
    applyWrites m (a ++ b) = applyWrites (applyWrites m a) b := by
  simp [applyWrites, List.foldl_append]

theorem applyWrites_congr (ws : List ((Nat × Nat) × α)) :
    ∀ (m1 m2 : S), (∀ k, MapLike.get? m1 k = MapLike.get? m2 k) →
      ∀ k, MapLike.get? (applyWrites m1 ws) k = MapLike.get? (applyWrites m2 ws) k := by
  induction ws with
  | nil => intro m1 m2 h; exact h
  | cons w ws ih =>
    intro m1 m2 h
    rw [applyWrites_cons, applyWrites_cons]
    apply ih
    intro k
    rw [LawfulMapLike.get?_insert, LawfulMapLike.get?_insert, h]

theorem applyWrites_not_mem (ws : List ((Nat × Nat) × α)) :
    ∀ (m : S) (k), k ∉ ws.map (·.1) → MapLike.get? (applyWrites m ws) k = MapLike.get? m k := by
  induction ws with
  | nil => intro m k _; rfl
  | cons w ws ih =>
    intro m k hk
    simp only [List.map_cons, List.mem_cons, not_or] at hk
    rw [applyWrites_cons, ih _ _ hk.2, LawfulMapLike.get?_insert, if_neg (Ne.symm hk.1)]

theorem applyWrites_perm {l1 l2 : List ((Nat × Nat) × α)} (hp : l1.Perm l2) :
    (l1.map (·.1)).Nodup → ∀ (m1 m2 : S), (∀ k, MapLike.get? m1 k = MapLike.get? m2 k) →
      ∀ k, MapLike.get? (applyWrites m1 l1) k = MapLike.get? (applyWrites m2 l2) k := by
  induction hp with
  | nil => intro _ m1 m2 h; exact h
  | cons w _ ih =>
    intro hn m1 m2 h
    rw [applyWrites_cons, applyWrites_cons]
    apply ih (List.nodup_cons.mp hn).2
    intro k
    rw [LawfulMapLike.get?_insert, LawfulMapLike.get?_insert, h]
  | swap a b l =>
    intro hn m1 m2 h
    simp only [applyWrites_cons]
    apply applyWrites_congr
    intro k
    have hab : b.1 ≠ a.1 := by
      simp only [List.map_cons, List.nodup_cons, List.mem_cons, not_or] at hn
      exact hn.1.1
    simp only [LawfulMapLike.get?_insert, h]
    by_cases h1 : a.1 = k <;> by_cases h2 : b.1 = k <;> simp [h1, h2]
    exact absurd (h2.trans h1.symm) hab
  | trans p1 _ ih1 ih2 =>
    intro hn m1 m2 h k
    rw [ih1 hn m1 m2 h k]
    exact ih2 ((p1.map (·.1)).nodup_iff.mp hn) m2 m2 (fun _ => rfl) k

/-! ## the writes of a task tree -/

theorem writesOf_keys (H : α → α → α) (sub0 : S) :
    ∀ (f d i : Nat) (w), w ∈ writesOf H sub0 f d i → InSub d i w.1 := by
  intro f
  induction f with
  | zero => intro d i w hw; simp [writesOf] at hw
  | succ f ih =>
    intro d i w hw
    unfold writesOf at hw
    split at hw
    · simp at hw
    · split at hw
      · simp only [List.mem_append, List.mem_singleton] at hw
        rcases hw with (hw | hw) | hw
        · exact inSub_left _ _ _ (ih _ _ _ hw)
        · exact inSub_right _ _ _ (ih _ _ _ hw)
        · subst hw; exact inSub_self d i
      · simp at hw

theorem writesOf_nodup (H : α → α → α) (sub0 : S) :
    ∀ (f d i : Nat), ((writesOf H sub0 f d i).map (·.1)).Nodup := by
  intro f
  induction f with
  | zero => intro d i; simp [writesOf]
  | succ f ih =>
    intro d i
    unfold writesOf
    split
    · simp
    · split
      · simp only [List.map_append, List.map_cons, List.map_nil]
        rw [List.nodup_append]
        refine ⟨?_, by simp, ?_⟩
        · rw [List.nodup_append]
          refine ⟨ih _ _, ih _ _, ?_⟩
          intro a ha b hb hab
          subst hab
          obtain ⟨wa, hwa, rfl⟩ := List.mem_map.mp ha
          obtain ⟨wb, hwb, hwb'⟩ := List.mem_map.mp hb
          have h1 := writesOf_keys H sub0 _ _ _ _ hwa
          have h2 := writesOf_keys H sub0 _ _ _ _ hwb
          rw [hwb'] at h2
          exact inSub_disj _ _ _ h1 h2
        · intro a ha b hb hab
          simp only [List.mem_singleton] at hb
          subst hab; subst hb
          rcases List.mem_append.mp ha with ha | ha
          · obtain ⟨wa, hwa, hwa'⟩ := List.mem_map.mp ha
            have h1 := writesOf_keys H sub0 _ _ _ _ hwa
            rw [hwa'] at h1
            exact inSub_child_ne _ _ _ h1
          · obtain ⟨wa, hwa, hwa'⟩ := List.mem_map.mp ha
            have h1 := writesOf_keys H sub0 _ _ _ _ hwa
            rw [hwa'] at h1
            exact inSub_child_ne _ _ _ h1
      · simp

theorem writesOf_left_present (H : α → α → α) (sub0 : S) :
    ∀ (f d i : Nat) (w), w ∈ writesOf H sub0 f d i →
      ∃ x, MapLike.get? sub0 (w.1.1 + 1, 2 * w.1.2) = some x := by
  intro f
  induction f with
  | zero => intro d i w hw; simp [writesOf] at hw
  | succ f ih =>
    intro d i w hw
    unfold writesOf at hw
    split at hw
    · simp at hw
    · rename_i x hx
      split at hw
      · simp only [List.mem_append, List.mem_singleton] at hw
        rcases hw with (hw | hw) | hw
        · exact ih _ _ _ hw
        · exact ih _ _ _ hw
        · subst hw; exact ⟨x, hx⟩
      · simp at hw

/-! ## the sequential model against `valOf` / `writesOf` -/

theorem batchRecalc_main (H : α → α → α) (sub0 : S) :
    ∀ (f d i : Nat) (sub sub' : S) (v : α) (ks ks' : List (Nat × Nat)),
      (∀ k, InSub d i k → MapLike.get? sub k = MapLike.get? sub0 k) →
      Pm.batchRecalc H f d i sub ks = some (v, sub', ks') →
      valOf H sub0 f d i = some v ∧ ks' = ks ∧
      ∀ k, MapLike.get? sub' k = MapLike.get? (applyWrites sub (writesOf H sub0 f d i)) k := by
  intro f
  induction f with
  | zero =>
    intro d i sub sub' v ks ks' hag h
    simp only [Pm.batchRecalc, Option.map_eq_some_iff, Prod.mk.injEq] at h
    obtain ⟨a, ha, rfl, rfl, rfl⟩ := h
    rw [hag _ (inSub_self d i)] at ha
    exact ⟨by simpa [valOf] using ha, rfl, fun k => by simp [writesOf, applyWrites_nil]⟩
  | succ f ih =>
    intro d i sub sub' v ks ks' hag h
    have hc : MapLike.get? sub (d + 1, 2 * i) = MapLike.get? sub0 (d + 1, 2 * i) :=
      hag _ (inSub_left _ _ _ (inSub_self _ _))
    unfold Pm.batchRecalc at h
    split at h
    · rename_i hnone
      rw [hc] at hnone
      simp only [Option.map_eq_some_iff, Prod.mk.injEq] at h
      obtain ⟨a, ha, rfl, rfl, rfl⟩ := h
      rw [hag _ (inSub_self d i)] at ha
      refine ⟨?_, rfl, fun k => ?_⟩
      · unfold valOf; rw [hnone]; exact ha
      · unfold writesOf; rw [hnone]; rfl
    · rename_i x hsome
      rw [hc] at hsome
      split at h
      · simp at h
      · rename_i l sub1 ks1 hl
        split at h
        · simp at h
        · rename_i r sub2 ks2 hr
          simp only [Option.some.injEq, Prod.mk.injEq] at h
          obtain ⟨rfl, rfl, rfl⟩ := h
          obtain ⟨hvl, rfl, hml⟩ := ih _ _ _ _ _ _ _
            (fun k hk => hag k (inSub_left _ _ _ hk)) hl
          have hag1 : ∀ k, InSub (d + 1) (2 * i + 1) k → MapLike.get? sub1 k = MapLike.get? sub0 k := by
            intro k hk
            rw [hml k, applyWrites_not_mem, hag k (inSub_right _ _ _ hk)]
            intro hmem
            obtain ⟨w, hw, hw'⟩ := List.mem_map.mp hmem
            have := writesOf_keys H sub0 _ _ _ _ hw
            rw [hw'] at this
            exact inSub_disj _ _ _ this hk
          obtain ⟨hvr, rfl, hmr⟩ := ih _ _ _ _ _ _ _ hag1 hr
          have hv : valOf H sub0 (f + 1) d i = some (H l r) := by
            rw [valOf, hsome]; simp only [hvl, hvr]
          refine ⟨hv, rfl, fun k => ?_⟩
          rw [writesOf, hsome]
          simp only [hv]
          rw [applyWrites_append, applyWrites_append, applyWrites_cons, applyWrites_nil]
          simp only [LawfulMapLike.get?_insert]
          split
          · rfl
          · rw [hmr k]
            exact applyWrites_congr _ _ _ hml k

theorem batchRecalc_schedule_free (S : Type) [MapLike S (Nat × Nat) α] [LawfulMapLike S (Nat × Nat) α]
    (H : α → α → α) : BatchRecalcScheduleFreeStmt S H := by
  intro f d i sub0 sub' v ks ks' h
  obtain ⟨hv, hk, hm⟩ := batchRecalc_main H sub0 f d i sub0 sub' v ks ks' (fun _ _ => rfl) h
  refine ⟨hv, hk, fun order hp k => ?_⟩
  rw [hm k]
  exact applyWrites_perm hp ((hp.map (·.1)).nodup_iff.mpr (writesOf_nodup H sub0 f d i))
    sub0 sub0 (fun _ => rfl) k

theorem disjoint_writes (S : Type) [MapLike S (Nat × Nat) α] [LawfulMapLike S (Nat × Nat) α]
    (H : α → α → α) : DisjointWritesStmt S H := by
  intro f d i sub0
  exact ⟨writesOf_nodup H sub0 f d i, writesOf_left_present H sub0 f d i⟩

end

/-! ## cell-wise fills -/

theorem setIfInBounds_swap {β : Type} (v : Array β) (a b : Nat) (x y : β) (h : a = b → x = y) :
    (v.setIfInBounds a x).setIfInBounds b y = (v.setIfInBounds b y).setIfInBounds a x := by
  apply Array.ext_getElem?
  intro j
  simp only [Array.getElem?_setIfInBounds, Array.size_setIfInBounds]
  by_cases h1 : a = j <;> by_cases h2 : b = j <;> simp [h1, h2]
  subst h1; subst h2
  rw [h rfl]

theorem parFill_perm : ParFillStmt := by
  intro β f o1 o2 v hp
  induction hp generalizing v with
  | nil => rfl
  | cons a _ ih => simp only [parFill, List.foldl_cons] at ih ⊢; exact ih _
  | swap a b l =>
    simp only [parFill, List.foldl_cons]
    rw [setIfInBounds_swap v b a (f b) (f a) (fun h => by rw [h])]
  | trans _ _ ih1 ih2 => rw [ih1, ih2]

theorem parFill_size {β : Type} (f : Nat → β) (order : List Nat) :
    ∀ v : Array β, (parFill f order v).size = v.size := by
  induction order with
  | nil => intro v; rfl
  | cons a l ih =>
    intro v
    simp only [parFill, List.foldl_cons] at ih ⊢
    rw [ih]; simp

theorem parFill_spec : ParFillSpecStmt := by
  intro β _ f order
  induction order with
  | nil => intro v j _; simp [parFill]
  | cons a l ih =>
    intro v j hj
    have h1 : parFill f (a :: l) v = parFill f l (v.setIfInBounds a (f a)) := rfl
    rw [h1, ih _ _ (by simpa using hj)]
    by_cases hjl : j ∈ l
    · simp [hjl]
    · simp only [hjl, if_false, List.mem_cons, or_false]
      simp only [Array.getElem!_eq_getD, Array.getD_eq_getD_getElem?, Array.getElem?_setIfInBounds]
      by_cases hja : a = j
      · subst hja; simp [hj]
      · simp [hja, Ne.symm hja]

end Zk.Par

namespace Zk.Retry

theorem newWithTries_spec (outcomes : Nat → OpenResult) :
    ∀ (fuel t : Nat) (acc : Result), 11 ≤ t + fuel → t ≤ 10 → acc.attempts = t →
      9 * acc.sleptMs + 1 = 10 ^ t →
      (newWithTries outcomes fuel t acc).attempts ≤ 10 ∧
      ((newWithTries outcomes fuel t acc).success = true ↔
        ∃ k, t ≤ k ∧ k < 10 ∧ outcomes k = .ok ∧ ∀ j, t ≤ j → j < k → outcomes j = .wouldBlock) ∧
      ((newWithTries outcomes fuel t acc).success = true →
        9 * (newWithTries outcomes fuel t acc).sleptMs + 1 =
          10 ^ ((newWithTries outcomes fuel t acc).attempts - 1)) ∧
      9 * (newWithTries outcomes fuel t acc).sleptMs + 1 ≤ 10 ^ 10 := by
  intro fuel
  induction fuel with
  | zero => intro t acc h1 h2; omega
  | succ fuel ih =>
    intro t acc hf ht ha hs
    have hpow : 10 ^ t ≤ 10 ^ 10 := Nat.pow_le_pow_right (by omega) ht
    unfold newWithTries
    split
    · rename_i hge
      refine ⟨by simp; omega, ?_, by simp, by simp; omega⟩
      simp only [Bool.false_eq_true, false_iff, not_exists, not_and]
      intro k hk hk'; omega
    · rename_i hlt
      have hlt : t < 10 := by omega
      split
      · rename_i hok
        refine ⟨by simp; omega, ?_, by simp [ha, hs], by simp; omega⟩
        simp only [true_iff]
        exact ⟨t, Nat.le_refl _, hlt, hok, fun j h1 h2 => by omega⟩
      · rename_i hwb
        have hs' : 9 * (acc.sleptMs + 10 ^ t) + 1 = 10 ^ (t + 1) := by
          rw [Nat.pow_succ]; omega
        obtain ⟨r1, r2, r3, r4⟩ := ih (t + 1)
          { acc with attempts := acc.attempts + 1, sleptMs := acc.sleptMs + 10 ^ t }
          (by omega) (by omega) (by simp [ha]) hs'
        refine ⟨r1, ?_, r3, r4⟩
        rw [r2]
        constructor
        · rintro ⟨k, hk1, hk2, hk3, hk4⟩
          refine ⟨k, by omega, hk2, hk3, fun j hj1 hj2 => ?_⟩
          by_cases hjt : j = t
          · subst hjt; exact hwb
          · exact hk4 j (by omega) hj2
        · rintro ⟨k, hk1, hk2, hk3, hk4⟩
          have hkt : k ≠ t := by
            intro h; subst h; rw [hwb] at hk3; cases hk3
          exact ⟨k, by omega, hk2, hk3, fun j hj1 hj2 => hk4 j (by omega) hj2⟩
      · rename_i herr
        refine ⟨by simp; omega, ?_, by simp, by simp; omega⟩
        simp only [Bool.false_eq_true, false_iff, not_exists, not_and]
        intro k hk1 hk2 hk3 hk4
        by_cases hkt : k = t
        · subst hkt; rw [herr] at hk3; cases hk3
        · have := hk4 t (Nat.le_refl _) (by omega)
          rw [herr] at this; cases this

theorem retry_bound : RetryStmt := by
  intro outcomes
  obtain ⟨r1, r2, r3, r4⟩ := newWithTries_spec outcomes 11 0 ⟨false, 0, 0⟩
    (by omega) (by omega) rfl (by simp)
  refine ⟨r1, ?_, ?_, ?_⟩
  · show (open_ outcomes).success = true ↔ _
    unfold open_
    rw [r2]
    constructor
    · rintro ⟨k, _, hk2, hk3, hk4⟩
      exact ⟨k, hk2, hk3, fun j hj => hk4 j (Nat.zero_le _) hj⟩
    · rintro ⟨k, hk2, hk3, hk4⟩
      exact ⟨k, Nat.zero_le _, hk2, hk3, fun j _ hj => hk4 j hj⟩
  · intro hs
    have := r3 hs
    show (open_ outcomes).sleptMs = _
    unfold open_
    omega
  · show (open_ outcomes).sleptMs ≤ _
    unfold open_
    have : (10 : Nat) ^ 10 = 10000000000 := by decide
    omega

end Zk.Retry
