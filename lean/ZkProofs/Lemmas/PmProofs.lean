import ZkProofs.Lemmas.PmLemmas
/-!
# The persistent tree (pmtree + adapter) refines the ideal tree when no storage failure is injected
-/
set_option linter.unusedSectionVars false
namespace Zk.Tree

variable {α : Type} [Inhabited α] (D : Type) [MapLike D PmKey (PmVal α)]
  [LawfulMapLike D PmKey (PmVal α)]

theorem Pm.new_rel (H : α → α → α) (dflt : α) : Pm.NewStmt D H dflt := by
  intro d hd
  let c : Array α := (Pm.mkCache H dflt d [dflt]).toArray
  let t0 : Pm α D := { db := { kv := MapLike.empty }, depth := d, next := 0, cache := c, root := c[0]!,
                       flags := Array.replicate (2 ^ d) 0, metadata := [] }
  let t1 := t0.putKv PmKey.depthKey (PmVal.num d)
  let t2 := t1.putKv PmKey.nextKey (PmVal.num 0)
  let t3 := t2.putKv (PmKey.node d 0) (PmVal.fr c[d]!)
  have hf0 : t0.db.failAt = none := rfl
  have hg0 : ∀ l i, t0.getElem l i = c[l]! := by
    intro l i
    show (match MapLike.get? (MapLike.empty : D) (PmKey.node l i) with
      | some (.fr v) => v
      | _ => c[l]!) = _
    rw [LawfulMapLike.get?_empty]
  have hg3 : ∀ l i, t3.getElem l i = c[l]! := by
    intro l i
    show Pm.getElem (Pm.putKv (Pm.putKv (Pm.putKv t0 _ _) _ _) _ _) l i = _
    rw [Pm.getElem_putKv_node, Pm.getElem_putKv_other _ _ _ (by simp),
      Pm.getElem_putKv_other _ _ _ (by simp), hg0]
    split
    · rename_i h; rw [← h.1]
    · rfl
  obtain ⟨t', h1, h2, h3, h4, h5, h6⟩ := Pm.putDefaults_spec c d t3 rfl
  have hnew : Pm.new (D := D) H dflt d { kv := MapLike.empty } = (t', .ok ()) := by
    show (do Pm.put PmKey.depthKey (PmVal.num d)
             Pm.put PmKey.nextKey (PmVal.num 0)
             Pm.put (PmKey.node d 0) (PmVal.fr c[d]!)
             Pm.putDefaults c d) t0 = _
    rw [PmM.bind_ok (Pm.put_ok t0 _ _ rfl)]
    rw [PmM.bind_ok (Pm.put_ok t1 _ _ rfl)]
    rw [PmM.bind_ok (Pm.put_ok t2 _ _ rfl)]
    exact h1
  have hg := h6 hg3
  have hc : t'.cache = c := h2.cache
  have hd' : t'.depth = d := h2.depth
  have hcl : ∀ l, l ≤ d → c[l]! = Ideal.dfltAt H dflt (d - l) := fun l hl => Pm.mkCache_get H dflt d l hl
  show (Pm.new (D := D) H dflt d { kv := MapLike.empty }).2 = .ok () ∧
    Pm.Rel H dflt (Pm.new (D := D) H dflt d { kv := MapLike.empty }).1 (Ideal.new d)
  rw [hnew]
  refine ⟨rfl, ?_⟩
  refine ⟨⟨?_, ?_, ?_, ?_, ?_, ?_, ?_, ?_, ?_⟩, ?_, ?_, ?_, ?_⟩
  · rw [hc, hd']; exact Pm.mkCache_size H dflt d
  · rw [h2.flags, hd']; simp [t3, t2, t1, t0]
  · rw [h3]; exact Nat.zero_le _
  · rw [hd']; exact hd
  · rw [h2.failAt]; rfl
  · rw [h4, hg]; rfl
  · intro l i hl _
    rw [hd'] at hl
    rw [hg, hg, hg, hcl l (by omega), hcl (l+1) (by omega)]
    have : d - l = (d - (l + 1)) + 1 := by omega
    rw [this]; rfl
  · rw [h2.depthKey, hd']
    show MapLike.get? (Pm.putKv (Pm.putKv (Pm.putKv t0 _ _) _ _) _ _).db.kv _ = _
    rw [Pm.get?_putKv, Pm.get?_putKv, Pm.get?_putKv]
    simp
  · rw [h5, h3]
    show MapLike.get? (Pm.putKv (Pm.putKv (Pm.putKv t0 _ _) _ _) _ _).db.kv _ = _
    rw [Pm.get?_putKv, Pm.get?_putKv]
    simp
    rfl
  · exact hd'
  · exact h3
  · intro i _
    rw [hd', hg, hcl d (by omega), Nat.sub_self]
    rfl
  · intro i hi
    rw [h2.flags]
    rw [hd'] at hi
    show (Array.replicate (2 ^ d) 0)[i]! = 0 ↔ _
    simp [Ideal.new, hi]


theorem Pm.proofAux_eq {D} [MapLike D PmKey (PmVal α)] [LawfulMapLike D PmKey (PmVal α)]
    {H : α → α → α} {dflt : α} {t : Pm α D} {s : Ideal α} (h : Pm.Rel H dflt t s) :
    ∀ (k i : Nat), k ≤ s.depth → i < 2 ^ k → Pm.proofAux t k i = Ideal.proofAux H dflt s k k i
  | 0, _, _, _ => rfl
  | k+1, i, hk, hi => by
    have hp : 2 ^ (k+1) = 2 * 2 ^ k := by rw [Nat.pow_succ]; omega
    simp only [Pm.proofAux, Ideal.proofAux]
    rw [Pm.xor_one_bit, Pm.xor_one_div, h.getElem_node (k+1) (i ^^^ 1) hk (Pm.xor_one_lt i k hi),
      Pm.proofAux_eq h k (i / 2) (by omega) (by omega)]
    rfl

theorem Pm.obs_eq (H : α → α → α) (dflt : α) : Pm.ObsStmt D H dflt := by
  intro t s h
  have hd := h.depth
  have hcap : t.cap = 2 ^ s.depth := by unfold Pm.cap; rw [hd]
  have hget : ∀ i, t.get i = if i < 2 ^ s.depth then .ok (s.leaf dflt i) else .err := by
    intro i
    unfold Pm.get
    rw [hcap]
    by_cases hi : i < 2 ^ s.depth
    · have : ¬ (i ≥ 2 ^ s.depth) := by omega
      simp only [this, hi, if_true, if_false]
      rw [h.leaves i (by rw [hd]; exact hi)]
    · have : i ≥ 2 ^ s.depth := by omega
      simp only [this, hi, if_true, if_false]
  refine ⟨?_, h.next, hget, ?_, ?_, ?_⟩
  · rw [h.inv.root_eq, h.getElem_node 0 0 (Nat.zero_le _) (by simp)]
    rfl
  · intro l i
    unfold Pm.getSubtreeRoot
    rw [hcap, hd]
    by_cases hl : l > s.depth
    · simp [hl]
    · by_cases hi : i ≥ 2 ^ s.depth
      · simp [hl, hi]
      · have hi' : i < 2 ^ s.depth := by omega
        have hor : ¬ (l > s.depth ∨ i ≥ 2 ^ s.depth) := by omega
        rw [if_neg hl, if_neg hi, if_neg hor]
        by_cases h0 : l = 0
        · subst h0
          simp only [if_true, Nat.sub_zero]
          rw [Nat.div_eq_of_lt hi', h.inv.root_eq, h.getElem_node 0 0 (Nat.zero_le _) (by simp)]
        · simp only [h0, if_false]
          by_cases hld : l = s.depth
          · subst hld
            simp only [if_true, Nat.sub_self, Nat.pow_zero, Nat.div_one]
            rw [hget, if_pos hi']
            congr 1
            unfold Ideal.node
            rw [Nat.sub_self]; rfl
          · simp only [hld, if_false]
            rw [h.getElem_node l _ (by omega)]
            rw [Nat.div_lt_iff_lt_mul (Nat.two_pow_pos _), ← Nat.pow_add]
            have : l + (s.depth - l) = s.depth := by omega
            rw [this]; exact hi'
  · unfold Pm.emptyIdx Ideal.emptyIdx
    have hm : min t.next t.flags.size = s.next := by
      have := h.inv.next_le
      rw [h.inv.fsize, ← h.next]; omega
    rw [hm]
    apply List.filter_congr
    intro i hi
    have hi' : i < 2 ^ t.depth := by
      have := h.inv.next_le
      have := h.next
      simp at hi; omega
    have := h.flags i hi'
    by_cases hf : t.flags[i]! = 0
    · simp [hf, this.mp hf]
    · have h2 : ¬ ((s.live.lookup i).getD false = false) := fun hc => hf (this.mpr hc)
      simp [hf, h2]
  · intro i
    unfold Pm.proof
    rw [hcap]
    by_cases hi : i < 2 ^ s.depth
    · have : ¬ (i ≥ 2 ^ s.depth) := by omega
      simp only [this, hi, if_true, if_false]
      rw [hd, Pm.proofAux_eq h s.depth i (Nat.le_refl _) hi]
      rfl
    · have : i ≥ 2 ^ s.depth := by omega
      simp only [this, hi, if_true, if_false]


theorem Ideal.pm_leaf_cons (dflt : α) (s : Ideal α) (ws : List (Nat × α)) (i : Nat) (v : α) (n : Nat)
    (lv : List (Nat × Bool)) (j : Nat) :
    Ideal.leaf dflt ({ depth := s.depth, writes := (i, v) :: ws, next := n, live := lv } : Ideal α) j =
      if j = i then v else Ideal.leaf dflt { s with writes := ws } j := by
  unfold Ideal.leaf
  simp only [List.lookup_cons]
  by_cases h : j = i
  · subst h; simp
  · have : (j == i) = false := by simp [h]
    rw [this, if_neg h]

/-- a write of `v` at `key` with flag value `b` -/
theorem Pm.set_core {H : α → α → α} {dflt : α} {t : Pm α D} {s : Ideal α} (hrel : Pm.Rel H dflt t s)
    (key : Nat) (v : α) (b : Nat) (fl : Bool) (hb : b = 0 ↔ fl = false) (hk : key < 2 ^ t.depth) :
    ∃ t'', (Pm.treeSet H key v >>= fun _ => Pm.setFlag key b) t = (t'', .ok ()) ∧
      Pm.Rel H dflt t''
        (⟨s.depth, (key, v) :: s.writes, max s.next (key + 1), (key, fl) :: s.live⟩ : Ideal α) := by
  apply Pm.rel_after_set hrel key v b hk
  · rfl
  · rfl
  · intro j
    rw [Ideal.pm_leaf_cons]
  · intro j
    simp only [List.lookup_cons]
    by_cases h : j = key
    · subst h; simp [hb]
    · have : (j == key) = false := by simp [h]
      rw [this, if_neg h]

theorem Pm.set_rel (H : α → α → α) (dflt : α) : Pm.SetStmt D H dflt := by
  intro t s i v hrel
  unfold PmRefines Ideal.set Ideal.cap
  by_cases hi : i < 2 ^ s.depth
  · obtain ⟨t'', h1, h2⟩ := Pm.set_core D hrel i v 1 true (by simp) (by rw [hrel.depth]; exact hi)
    have : Pm.set H i v t = (t'', .ok ()) := h1
    rw [this, if_pos hi]
    exact h2
  · have herr : Pm.treeSet H i v t = (t, .err) := by
      unfold Pm.treeSet Pm.cap
      rw [hrel.depth, if_pos (by omega)]
    have : Pm.set H i v t = (t, .err) := PmM.bind_err herr
    rw [this, if_neg hi]
    exact hrel

theorem Pm.append_rel (H : α → α → α) (dflt : α) : Pm.AppendStmt D H dflt := by
  intro t s v hrel
  unfold PmRefines Ideal.append Ideal.set Ideal.cap
  by_cases hi : s.next < 2 ^ s.depth
  · obtain ⟨t'', h1, h2⟩ := Pm.set_core D hrel t.next v 1 true (by simp)
      (by rw [hrel.depth, hrel.next]; exact hi)
    have : Pm.updateNext H v t = (t'', .ok ()) := h1
    rw [this, if_pos hi]
    rw [hrel.next] at h2
    exact h2
  · have herr : Pm.treeUpdateNext H v t = (t, .err) := by
      unfold Pm.treeUpdateNext Pm.treeSet Pm.cap
      rw [hrel.depth, hrel.next, if_pos (by omega)]
    have : Pm.updateNext H v t = (t, .err) := PmM.bind_err herr
    rw [this, if_neg hi]
    exact hrel

theorem Pm.delete_rel (H : α → α → α) (dflt : α) : Pm.DeleteStmt D H dflt := by
  intro t s i hrel
  show (Pm.delete H dflt i t).2 = _ ∧ Pm.Rel H dflt (Pm.delete H dflt i t).1 _
  unfold Ideal.delete
  by_cases hi : i < s.next
  · have hle := hrel.inv.next_le
    obtain ⟨t'', h1, h2⟩ := Pm.set_core D hrel i dflt 0 false (by simp)
      (by have := hrel.next; omega)
    have ht : Pm.treeDelete H dflt i t = Pm.treeSet H i dflt t := by
      unfold Pm.treeDelete
      rw [hrel.next, if_neg (by omega)]
    have : Pm.delete H dflt i t = (t'', .ok ()) := by
      show (Pm.treeDelete H dflt i >>= fun _ => Pm.setFlag i 0) t = _
      have e : (Pm.treeDelete H dflt i >>= fun _ => Pm.setFlag i 0) t =
          (Pm.treeSet H i dflt >>= fun _ => Pm.setFlag i 0) t := by
        show PmM.bind' _ _ t = PmM.bind' _ _ t
        unfold PmM.bind'
        rw [ht]
      rw [e]; exact h1
    rw [this, if_pos hi, if_pos hi]
    refine ⟨rfl, ?_⟩
    have e : max s.next (i + 1) = s.next := by omega
    rw [e] at h2
    exact h2
  · have herr : Pm.treeDelete H dflt i t = (t, .err) := by
      unfold Pm.treeDelete
      rw [hrel.next, if_pos (by omega)]
    have : Pm.delete H dflt i t = (t, .err) := PmM.bind_err herr
    rw [this, if_neg hi, if_neg hi]
    exact ⟨rfl, hrel⟩


/-- a non-empty range write that fits -/
theorem Pm.setRange_core (S : Type) [MapLike S (Nat × Nat) α] [LawfulMapLike S (Nat × Nat) α]
    {H : α → α → α} {dflt : α} {t : Pm α D} {s : Ideal α} (hrel : Pm.Rel H dflt t s)
    (start : Nat) (vs : List α) (hne : vs ≠ []) (hfit : start + vs.length ≤ 2 ^ s.depth) :
    ∃ t'', Pm.setRange S H start vs t = (t'', .ok ()) ∧
      Pm.Rel H dflt t''
        (⟨s.depth, (s.writeMany start vs).writes, max s.next (start + vs.length),
          (s.writeMany start vs).live⟩ : Ideal α) := by
  have hd := hrel.depth
  obtain ⟨t', h1, h2, h3, h4, h5, h6⟩ :=
    Pm.treeSetRange_spec S H t hrel.inv start vs hne (by rw [hd]; exact hfit)
  let l := (List.range vs.length).map (start + ·)
  have hl : ∀ j, j ∈ l ↔ start ≤ j ∧ j < start + vs.length := by
    intro j
    simp only [l, List.mem_map, List.mem_range]
    constructor
    · rintro ⟨a, ha, rfl⟩; omega
    · intro h; exact ⟨j - start, by omega, by omega⟩
  obtain ⟨t'', g1, g2, g3, g4, g5, g6, g7⟩ := Pm.setFlags_spec 1 l t' (by
    intro i hi
    rw [hl] at hi
    rw [h4, hrel.inv.fsize, hd]; omega)
  refine ⟨t'', ?_, g2 H h2, ?_, ?_, ?_, ?_⟩
  · unfold Pm.setRange
    have : vs.isEmpty = false := by cases vs <;> simp at hne ⊢
    rw [this]
    simp only [Bool.false_eq_true, if_false]
    rw [PmM.bind_ok h1]
    exact g1
  · show t''.depth = s.depth
    rw [g3, h3, hd]
  · show t''.next = max s.next (start + vs.length)
    rw [g4, h5, hrel.next]
  · intro j hj
    have hj' : j < 2 ^ t.depth := by rw [g3, h3] at hj; exact hj
    rw [g3, g5, h3, h6 j hj']
    have e : Ideal.leaf dflt (⟨s.depth, (s.writeMany start vs).writes, max s.next (start + vs.length),
          (s.writeMany start vs).live⟩ : Ideal α) j = (s.writeMany start vs).leaf dflt j := rfl
    rw [e, Ideal.pm_writeMany_leaf]
    unfold Pm.newLeaf
    rw [hrel.leaves j hj']
    simp
  · intro j hj
    have hj' : j < 2 ^ t.depth := by rw [g3, h3] at hj; exact hj
    show t''.flags[j]! = 0 ↔ ((s.writeMany start vs).live.lookup j).getD false = false
    rw [g7, Ideal.pm_writeMany_live]
    by_cases hc : start ≤ j ∧ j < start + vs.length
    · rw [if_pos ((hl j).mpr hc), if_pos hc]; simp
    · rw [if_neg (fun h => hc ((hl j).mp h)), if_neg hc, h4]
      exact hrel.flags j hj'

theorem Pm.setRange_rel (S : Type) [MapLike S (Nat × Nat) α] [LawfulMapLike S (Nat × Nat) α]
    (H : α → α → α) (dflt : α) : Pm.SetRangeStmt D S H dflt := by
  intro t s start vs hrel hne
  unfold PmRefines Ideal.setRange Ideal.cap
  have hemp : vs.isEmpty = false := by cases vs <;> simp at hne ⊢
  by_cases hfit : start + vs.length ≤ 2 ^ s.depth
  · obtain ⟨t'', h1, h2⟩ := Pm.setRange_core D S hrel start vs hne hfit
    rw [h1, if_pos hfit]
    simp only [hemp, Bool.false_eq_true, if_false]
    have e : (s.writeMany start vs).depth = s.depth := Ideal.pm_writeMany_depth s start vs
    show Pm.Rel H dflt t'' ⟨(s.writeMany start vs).depth, _, _, _⟩
    rw [e]
    exact h2
  · have herr : Pm.treeSetRange S H start vs t = (t, .err) := by
      unfold Pm.treeSetRange Pm.cap
      rw [hrel.depth]
      simp only [if_pos (show start + vs.length > 2 ^ s.depth by omega)]
    have : Pm.setRange S H start vs t = (t, .err) := by
      unfold Pm.setRange
      rw [hemp]
      simp only [Bool.false_eq_true, if_false]
      exact PmM.bind_err herr
    rw [this, if_neg hfit]
    exact hrel


theorem Pm.batch_rel_partial (S : Type) [MapLike S (Nat × Nat) α] [LawfulMapLike S (Nat × Nat) α]
    (H : α → α → α) (dflt : α) : Pm.BatchStmtPartial D S H dflt := by
  intro t s start vs hrel
  match vs with
  | [] =>
    have h1 : Pm.overrideRange S H dflt start ([] : List α) [] t = (t, .err) := rfl
    have h2 : Ideal.batch dflt s start ([] : List α) [] = .err := by
      unfold Ideal.batch
      simp
    rw [h1, h2]
    exact hrel
  | [v] =>
    have h1 : Pm.overrideRange S H dflt start [v] [] t = Pm.set H start v t := rfl
    have h2 : Ideal.batch dflt s start [v] [] = Ideal.set s start v := by
      unfold Ideal.batch Ideal.set
      by_cases hc : start < s.cap
      · have : ¬ (start + 1 > s.cap) := by omega
        simp [hc, this, Ideal.removeMany, Ideal.writeMany]
      · have : start + 1 > s.cap := by omega
        simp [hc, this]
    rw [h1, h2]
    exact Pm.set_rel D H dflt t s start v hrel
  | a :: b :: r =>
    have h1 : Pm.overrideRange S H dflt start (a :: b :: r) [] t = Pm.setRange S H start (a :: b :: r) t := rfl
    have h2 : Ideal.batch dflt s start (a :: b :: r) [] = Ideal.setRange s start (a :: b :: r) := by
      unfold Ideal.batch Ideal.setRange
      by_cases hc : start + (a :: b :: r).length ≤ s.cap
      · simp only [List.length_cons] at hc
        have : ¬ (s.cap < start + (r.length + 1 + 1)) := by omega
        simp [hc, this, Ideal.removeMany]
      · simp only [List.length_cons] at hc
        have : s.cap < start + (r.length + 1 + 1) := by omega
        simp [hc, this]
    rw [h1, h2]
    exact Pm.setRange_rel D S H dflt t s start (a :: b :: r) hrel (by simp)

end Zk.Tree
