import ZkProofs.Lemmas.FullLemmas
/-!
# The flat-array tree (`FullMerkleTree`) refines the ideal hash tree
-/
namespace Zk.Tree

open FullL

variable {α : Type} [Inhabited α]

namespace FullL

/-- the state after `write leaves; update_nodes; mark flags` is related to `writeMany` -/
theorem rel_after_write (H : α → α → α) (dflt : α) (t : Full α) (s : Ideal α) (start : Nat)
    (vs : List α) (n : Nat) (h : Full.Rel H dflt t s)
    (hfit : start + vs.length ≤ 2 ^ t.depth) (hne : vs.length ≠ 0) (hn : n ≤ 2 ^ t.depth) :
    Full.Rel H dflt
      { depth := t.depth,
        nodes := Full.updateNodesAux H (t.depth + 1) (Full.writeAt t.nodes (2 ^ t.depth + start - 1) vs)
          (2 ^ t.depth + start - 1) (2 ^ t.depth + start - 1 + (vs.length - 1)),
        flags := Full.markRange t.flags start vs.length,
        next := n }
      { s.writeMany start vs with next := n } := by
  obtain ⟨hsz, hcons, hin, hout⟩ := write_update H t.depth t.nodes start vs h.inv.size h.inv.cons hfit hne
  have hf := writeMany_fields s start vs
  refine ⟨⟨?_, ?_, hn, hcons⟩, ?_, rfl, ?_, ?_⟩
  · show (Full.updateNodesAux _ _ _ _ _).size = _
    rw [hsz]; exact h.inv.size
  · show (Full.markRange _ _ _).size = _
    rw [markRange_size]; exact h.inv.fsize
  · show t.depth = (s.writeMany start vs).depth
    rw [hf.1]; exact h.depth
  · intro i hi
    show (Full.updateNodesAux _ _ _ _ _)[_]! = Ideal.leaf dflt _ i
    have e : Ideal.leaf dflt { s.writeMany start vs with next := n } i = Ideal.leaf dflt (s.writeMany start vs) i := rfl
    rw [e]
    by_cases hr : start ≤ i ∧ i < start + vs.length
    · obtain ⟨k, rfl⟩ : ∃ k, i = start + k := ⟨i - start, by omega⟩
      rw [hin k (by omega), writeMany_leaf_in dflt s start vs k (by omega)]
    · rw [hout i hi (by omega), writeMany_leaf_out dflt s start vs i (by omega)]
      exact h.leaves i hi
  · intro i hi
    show (Full.markRange _ _ _)[i]! = 0 ↔ ((s.writeMany start vs).live.lookup i).getD false = false
    rw [markRange_get, writeMany_live, h.inv.fsize]
    by_cases hr : start ≤ i ∧ i < start + vs.length
    · have : start ≤ i ∧ i < start + vs.length ∧ i < 2 ^ t.depth := by omega
      simp [hr, this]
    · have : ¬ (start ≤ i ∧ i < start + vs.length ∧ i < 2 ^ t.depth) := by omega
      simp only [hr, this, if_false]
      exact h.flags i hi

end FullL

theorem Full.setRange_rel (H : α → α → α) (dflt : α) : Full.SetRangeStmt H dflt := by
  intro t s start vs h
  have hd := h.depth
  unfold Full.setRange Ideal.setRange Full.cap Ideal.cap
  rw [← hd]
  by_cases hfit : start + vs.length ≤ 2 ^ t.depth
  · have hfit' : ¬ (start + vs.length > 2 ^ t.depth) := by omega
    simp only [hfit', hfit, if_false, if_true]
    by_cases hne : vs.length = 0
    · have : vs = [] := List.eq_nil_of_length_eq_zero hne
      subst this
      simp only [RefinesOutcome, Full.writeAt, Full.markRange, Ideal.writeMany, List.length_nil,
        ne_eq, not_true_eq_false, if_false, List.isEmpty_nil, if_true]
      exact h
    · have hpos := Nat.two_pow_pos t.depth
      have hl : Full.level (2 ^ t.depth + start - 1) = Full.level (2 ^ t.depth + start - 1 + (vs.length - 1)) := by
        rw [show 2 ^ t.depth + start - 1 = 2 ^ t.depth - 1 + start by omega, Nat.add_assoc,
          level_of_onLevel (leaf_onLevel (by omega)), level_of_onLevel (leaf_onLevel (by omega))]
      have hemp : vs.isEmpty = false := by cases vs <;> simp_all
      simp only [ne_eq, hne, not_false_eq_true, if_true, Full.updateNodes, hl, not_true_eq_false,
        if_false, hemp, RefinesOutcome]
      rw [h.next]
      exact rel_after_write H dflt t s start vs _ h hfit hne (by have := h.inv.next_le; rw [h.next] at this; omega)
  · have hfit' : start + vs.length > 2 ^ t.depth := by omega
    simp only [hfit', hfit, if_false, if_true, RefinesOutcome]
    exact h

theorem Full.set_rel (H : α → α → α) (dflt : α) : Full.SetStmt H dflt := by
  intro t s i v h
  have hr := Full.setRange_rel H dflt t s i [v] h
  have hI : Ideal.setRange s i [v] = Ideal.set s i v := by
    unfold Ideal.setRange Ideal.set
    by_cases hc : i < s.cap
    · have : i + 1 ≤ s.cap := hc
      simp [hc, this, Ideal.writeMany]
    · have : ¬ i + 1 ≤ s.cap := by omega
      simp [hc, this]
  rw [hI] at hr
  unfold Full.set
  cases hF : Full.setRange H t i [v] with
  | ok t' =>
    rw [hF] at hr
    cases hS : Ideal.set s i v with
    | ok s' =>
      rw [hS] at hr
      simp only [RefinesOutcome] at hr ⊢
      have hs' : s'.next = max s.next (i + 1) := by
        unfold Ideal.set at hS
        split at hS
        · simp only [Outcome.ok.injEq] at hS; rw [← hS]
        · simp at hS
      have hn : max t'.next (i + 1) = t'.next := by rw [hr.next, hs']; omega
      rw [hn]; exact hr
    | err => rw [hS] at hr; simp [RefinesOutcome] at hr
    | panic => rw [hS] at hr; simp [RefinesOutcome] at hr
  | err => rw [hF] at hr; exact hr
  | panic => rw [hF] at hr; exact hr

theorem Full.append_rel (H : α → α → α) (dflt : α) : Full.AppendStmt H dflt := by
  intro t s v h
  unfold Full.updateNext Ideal.append
  rw [← h.next]
  exact Full.set_rel H dflt t s t.next v h

namespace FullL

omit [Inhabited α] in
theorem lookup_cons_nat {β : Type} (l : List (Nat × β)) (i j : Nat) (b : β) :
    List.lookup j ((i, b) :: l) = if j = i then some b else List.lookup j l := by
  simp only [List.lookup_cons]
  by_cases h : j = i
  · simp [h]
  · have : (j == i) = false := by simp [h]
    simp [this, h]

end FullL

theorem Full.delete_rel (H : α → α → α) (dflt : α) : Full.DeleteStmt H dflt := by
  intro t s i h
  unfold Full.delete Ideal.delete
  rw [← h.next]
  by_cases hi : i < t.next
  · simp only [hi, if_true]
    have hs := Full.set_rel H dflt t s i dflt h
    have hcap : i < s.cap := by
      have := h.inv.next_le; rw [h.depth] at this; unfold Ideal.cap; omega
    unfold Ideal.set at hs
    simp only [hcap, if_true] at hs
    cases hF : Full.set H t i dflt with
    | ok t' =>
      rw [hF] at hs
      simp only [RefinesOutcome] at hs
      refine ⟨_, rfl, ?_⟩
      have hnext : t'.next = t.next := by
        rw [hs.next]; show max s.next (i + 1) = _; rw [← h.next]; omega
      refine ⟨⟨hs.inv.size, ?_, ?_, hs.inv.cons⟩, ?_, ?_, ?_, ?_⟩
      · show (t'.flags.setIfInBounds i 0).size = _
        rw [Array.size_setIfInBounds]; exact hs.inv.fsize
      · exact hs.inv.next_le
      · exact hs.depth
      · exact hnext
      · intro j hj
        exact hs.leaves j hj
      · intro j hj
        show (t'.flags.setIfInBounds i 0)[j]! = 0 ↔ (List.lookup j ((i, false) :: s.live)).getD false = false
        have hf := hs.flags j hj
        have e : (Ideal.live { s.write i dflt with next := max s.next (i + 1) }) = (i, true) :: s.live := rfl
        rw [e] at hf
        rw [lookup_cons_nat] at hf ⊢
        rw [get_set_nat]
        by_cases hji : j = i
        · subst hji
          have : j < t'.flags.size := by rw [hs.inv.fsize]; exact hj
          simp [this]
        · have : ¬ (i = j ∧ i < t'.flags.size) := by omega
          simp only [this, hji, if_false] at hf ⊢
          exact hf
    | err => rw [hF] at hs; simp [RefinesOutcome] at hs
    | panic => rw [hF] at hs; simp [RefinesOutcome] at hs
  · simp only [hi, if_false]
    exact ⟨t, rfl, h⟩

namespace FullL

omit [Inhabited α] in
theorem delete_fields (dflt : α) (s : Ideal α) (i : Nat) :
    (s.delete dflt i).depth = s.depth ∧ (s.delete dflt i).next = s.next := by
  unfold Ideal.delete
  split <;> exact ⟨rfl, rfl⟩

omit [Inhabited α] in
theorem removeMany_fields (dflt : α) (s : Ideal α) (rem : List Nat) :
    (s.removeMany dflt rem).depth = s.depth ∧ (s.removeMany dflt rem).next = s.next := by
  induction rem generalizing s with
  | nil => exact ⟨rfl, rfl⟩
  | cons i r ih =>
    simp only [Ideal.removeMany]
    have := ih (s.delete dflt i)
    have h2 := delete_fields dflt s i
    rw [h2.1, h2.2] at this
    exact this

theorem deleteMany_rel (H : α → α → α) (dflt : α) (rem : List Nat) : ∀ (t : Full α) (s : Ideal α),
    Full.Rel H dflt t s →
    ∃ t', Full.deleteMany H dflt t rem = .ok t' ∧ Full.Rel H dflt t' (s.removeMany dflt rem) := by
  induction rem with
  | nil => intro t s h; exact ⟨t, rfl, h⟩
  | cons i r ih =>
    intro t s h
    obtain ⟨t1, h1, hr1⟩ := Full.delete_rel H dflt t s i h
    obtain ⟨t2, h2, hr2⟩ := ih t1 _ hr1
    refine ⟨t2, ?_, hr2⟩
    simp only [Full.deleteMany, h1, h2]

end FullL

theorem Full.batch_rel (H : α → α → α) (dflt : α) : Full.BatchStmt H dflt := by
  intro t s start vs rem h
  unfold Full.overrideRange Ideal.batch Full.cap Ideal.cap
  rw [← h.depth]
  by_cases g1 : vs.isEmpty = true ∧ rem.isEmpty = true
  · simp only [g1, and_self, if_true, or_true, RefinesOutcome]; exact h
  · by_cases g2 : start + vs.length > 2 ^ t.depth
    · simp only [g1, g2, if_false, if_true, true_or, RefinesOutcome]; exact h
    · by_cases g3 : (rem.any fun i => decide (i ≥ 2 ^ t.depth)) = true
      · simp only [g1, g2, g3, if_false, if_true, true_or, or_true, RefinesOutcome]; exact h
      · simp only [g1, g2, g3, if_false, or_self, Bool.false_eq_true]
        obtain ⟨t1, h1, hr1⟩ := deleteMany_rel H dflt rem t s h
        have hf := removeMany_fields dflt s rem
        rw [h1]
        have hsr := Full.setRange_rel H dflt t1 _ start vs hr1
        have hfit : start + vs.length ≤ (s.removeMany dflt rem).cap := by
          unfold Ideal.cap; rw [hf.1, ← h.depth]; omega
        unfold Ideal.setRange at hsr
        simp only [hfit, if_true, hf.2] at hsr
        cases hF : Full.setRange H t1 start vs with
        | ok t2 =>
          rw [hF] at hsr
          show RefinesOutcome _ t s (Full.setRange H t1 start vs) _
          rw [hF]
          simp only [RefinesOutcome] at hsr ⊢
          exact hsr
        | err => rw [hF] at hsr; simp [RefinesOutcome] at hsr
        | panic => rw [hF] at hsr; simp [RefinesOutcome] at hsr

theorem Full.new_rel (H : α → α → α) (dflt : α) : Full.NewStmt H dflt := by
  intro d
  have hpos := Nat.two_pow_pos d
  refine ⟨⟨?_, ?_, ?_, ?_⟩, rfl, rfl, ?_, ?_⟩
  · show (Full.new H dflt d).nodes.size = 2 ^ (d + 1) - 1
    have := lvls_length (fun l => Full.dfltAt H dflt (d - l)) (d + 1)
    unfold lvls at this
    simp only [Full.new, List.size_toArray]
    exact this
  · show (Array.replicate (2 ^ d) 0).size = 2 ^ d
    simp
  · show 0 ≤ 2 ^ d
    omega
  · intro j hj
    change j < 2 ^ d - 1 at hj
    obtain ⟨l, i, hl, hi, rfl⟩ := flat_decomp d j hj
    have h1 := pow_succ' l
    rw [show 2 * (2 ^ l - 1 + i) + 1 = 2 ^ (l + 1) - 1 + 2 * i by omega,
      show 2 * (2 ^ l - 1 + i) + 2 = 2 ^ (l + 1) - 1 + (2 * i + 1) by omega,
      new_get H dflt d l i (by omega) hi, new_get H dflt d (l + 1) (2 * i) (by omega) (by omega),
      new_get H dflt d (l + 1) (2 * i + 1) (by omega) (by omega),
      show d - l = (d - (l + 1)) + 1 by omega]
    rfl
  · intro i hi
    change i < 2 ^ d at hi
    show (Full.new H dflt d).nodes[2 ^ d - 1 + i]! = _
    rw [new_get H dflt d d i (Nat.le_refl _) hi, Nat.sub_self]
    rfl
  · intro i hi
    change i < 2 ^ d at hi
    show (Array.replicate (2 ^ d) 0)[i]! = 0 ↔ _
    simp [Ideal.new, hi]

theorem Full.obs_eq (H : α → α → α) (dflt : α) : Full.ObsStmt H dflt := by
  intro t s h
  have hd := h.depth
  have hpos := Nat.two_pow_pos s.depth
  refine ⟨?_, h.next, ?_, ?_, ?_, ?_⟩
  · have := node_abs' H dflt t s h 0 0 (by omega) (by simp)
    simpa [Full.root, Ideal.root] using this
  · intro i
    unfold Full.get Full.cap
    rw [hd]
    by_cases hi : i < 2 ^ s.depth
    · have : ¬ (i ≥ 2 ^ s.depth) := by omega
      simp only [this, hi, if_true, if_false]
      have hl := h.leaves i (by rw [hd]; exact hi)
      rw [hd] at hl
      rw [show 2 ^ s.depth + i - 1 = 2 ^ s.depth - 1 + i by omega, hl]
    · have : i ≥ 2 ^ s.depth := by omega
      simp only [this, hi, if_true, if_false]
  · intro l i
    unfold Full.getSubtreeRoot Full.get Full.root Full.cap
    rw [hd]
    by_cases g1 : l > s.depth
    · simp [g1]
    · by_cases g2 : i ≥ 2 ^ s.depth
      · simp [g1, g2]
      · have g3 : ¬ (l > s.depth ∨ i ≥ 2 ^ s.depth) := by omega
        simp only [g1, g2, or_self, if_false]
        have hlt : i / 2 ^ (s.depth - l) < 2 ^ l := by
          rw [Nat.div_lt_iff_lt_mul (Nat.two_pow_pos _), ← Nat.pow_add,
            show l + (s.depth - l) = s.depth by omega]
          omega
        have key := node_abs' H dflt t s h l (i / 2 ^ (s.depth - l)) (by omega) hlt
        by_cases g4 : l = 0
        · subst g4
          simp only [if_true]
          rw [← key]
          have : i / 2 ^ (s.depth - 0) = 0 := Nat.div_eq_of_lt (by simpa using (by omega : i < 2 ^ s.depth))
          rw [this]
        · by_cases g5 : l = s.depth
          · subst g5
            simp only [g4, if_false, if_true]
            rw [← key, Nat.sub_self, Nat.pow_zero, Nat.div_one,
              show 2 ^ s.depth + i - 1 = 2 ^ s.depth - 1 + i by omega]
          · simp only [g4, g5, if_false]
            rw [← key, show 2 ^ s.depth + i - 1 = 2 ^ s.depth - 1 + i by omega,
              climb_flat (s.depth - l) s.depth i (by omega) (by omega),
              show s.depth - (s.depth - l) = l by omega]
  · unfold Full.emptyIdx Ideal.emptyIdx
    have hn := h.inv.next_le
    rw [h.inv.fsize, Nat.min_eq_left hn, h.next]
    apply List.filter_congr
    intro i hi
    have hi' : i < s.next := by simpa using hi
    have hf := h.flags i (by rw [← h.next] at hi'; omega)
    by_cases hz : t.flags[i]! = 0
    · have := hf.mp hz
      simp [hz, this]
    · have : ¬ ((List.lookup i s.live).getD false = false) := fun hc => hz (hf.mpr hc)
      simp [hz, this]
  · intro i
    unfold Full.proof Full.cap Ideal.proof
    rw [hd]
    by_cases hi : i < 2 ^ s.depth
    · have : ¬ (i ≥ 2 ^ s.depth) := by omega
      simp only [this, hi, if_true, if_false]
      rw [show 2 ^ s.depth + i - 1 = 2 ^ s.depth - 1 + i by omega,
        proofAux_flat H dflt t s h s.depth (Nat.le_refl _) i hi]
    · have : i ≥ 2 ^ s.depth := by omega
      simp only [this, hi, if_true, if_false]

end Zk.Tree
