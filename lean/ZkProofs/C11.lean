import ZkModel.Generated.FfiTable
import ZkModel.Basic
/-!
# C11 — the C FFI is the Rust API, argument for argument

`Generated/FfiTable.lean` is rewritten from `rln/src/ffi.rs` on every run: one row per
`extern "C"` function with the macro it expands, the `RLN` method it calls, the arguments it hands
over (in order), the output / verdict pointer and the C parameter list. The theorems say that every
function forwards exactly its own parameters, in API order, to the method of the same name (with
the three documented exceptions), and the model of the four macros says what is reported.
-/
namespace Zk
open Zk.Generated.Ffi

/-- the method an FFI function of this name must call -/
def expectedMethod (name : String) : String :=
  if name = "seq_atomic_operation" then "atomic_operation"
  else if name = "hash" then "public_hash"
  else if name = "poseidon_hash" then "public_poseidon_hash"
  else name

/-- the arguments the method must receive: the C parameters without the context and without the
    output pointer, in the same order; the sequential batch starts at the current leaf count -/
def expectedArgs (r : Row) : List String :=
  let ins := r.params.filter (fun p => p ≠ "ctx" ∧ p ≠ r.out)
  if r.name = "seq_atomic_operation" then "ctx.process().leaves_set()" :: ins else ins

def rowOk (r : Row) : Bool :=
  decide (r.method = expectedMethod r.name) &&
  (r.kind == "constructor" || decide (r.args = expectedArgs r)) &&
  -- the output pointer, when there is one, is the last C parameter
  (r.out == "" || r.kind == "constructor" || decide (r.params.getLast? = some r.out))

theorem C11_every_function_forwards_its_own_arguments :
    ∃ t, table = some t ∧ t.all rowOk = true := ⟨_, rfl, by decide⟩

/-- the set of exported functions (the C surface), in source order up to permutation -/
def exportedNames : List String :=
  ["new", "new_with_params", "set_tree", "delete_leaf", "set_leaf", "get_leaf", "leaves_set", "set_next_leaf",
   "set_leaves_from", "init_tree_with_leaves", "atomic_operation", "seq_atomic_operation", "get_root", "get_proof",
   "prove", "verify", "generate_rln_proof", "generate_rln_proof_with_witness", "verify_rln_proof", "verify_with_roots",
   "key_gen", "seeded_key_gen", "extended_key_gen", "seeded_extended_key_gen", "recover_id_secret", "set_metadata",
   "get_metadata", "flush", "hash", "poseidon_hash"]

/-- every documented function is exported exactly once and nothing else is (the order in the file is free) -/
theorem C11_exported_functions :
    ∃ t, table = some t ∧ (t.map (·.name)).length = exportedNames.length ∧
      (∀ n ∈ exportedNames, n ∈ t.map (·.name)) ∧ (∀ n ∈ t.map (·.name), n ∈ exportedNames) :=
  ⟨_, rfl, by decide, by decide, by decide⟩

/-- each wrapper is one of the four macros, a constructor, the direct accessor, or a hand-written body of the recognised
    straight-line shape (`manual`: one call on the context with the function's own parameters — see tools/extract.py);
    the verification entry points, whose verdict travels through a pointer, are not hand-written -/
theorem C11_kinds_known :
    ∃ t, table = some t ∧
      t.all (fun r => r.kind ∈ ["constructor", "call", "call_with_output_arg", "call_with_bool_arg",
                                "no_ctx_call_with_output_arg", "direct", "manual"]) = true ∧
      t.all (fun r => !(r.name ∈ ["verify", "verify_rln_proof", "verify_with_roots"]) || r.kind == "call_with_bool_arg") = true :=
  ⟨_, rfl, by decide, by decide⟩

/-- the sequential batch wrapper starts at the current leaf count -/
theorem C11_seq_batch_starts_at_leaf_count :
    ∃ t, table = some t ∧ ∃ r ∈ t, r.name = "seq_atomic_operation" ∧ r.method = "atomic_operation" ∧
      r.args = ["ctx.process().leaves_set()", "leaves_buffer", "indices_buffer"] :=
  ⟨_, rfl, by decide⟩

/-! ## what the macros report (model of `call!`, `call_with_output_arg!`, `call_with_bool_arg!`) -/

/-- result of an API method as seen by a macro: `Ok(v)` or `Err` (a panic aborts the process: C12/C13) -/
inductive Api (α : Type) | ok (v : α) | err

/-- what the C caller observes: the success flag and, when set, the output -/
structure Seen (α : Type) where
  flag : Bool
  out : Option α
deriving DecidableEq

def callMacro : Api Unit → Seen Unit
  | .ok _ => ⟨true, none⟩
  | .err => ⟨false, none⟩

def outputMacro : Api (List UInt8) → Seen (List UInt8)
  | .ok bytes => ⟨true, some bytes⟩       -- `*output = Buffer::from(&output_data[..])`, the vector is leaked to the caller
  | .err => ⟨false, none⟩                 -- the output pointer is not written

def boolMacro : Api Bool → Seen Bool
  | .ok v => ⟨true, some v⟩
  | .err => ⟨false, none⟩

/-- success is reported exactly when the API returned `Ok`, and then the output is exactly what the API wrote -/
theorem C11_flag_iff_ok (r : Api (List UInt8)) :
    ((outputMacro r).flag = true ↔ ∃ b, r = .ok b) ∧ (∀ b, r = .ok b → (outputMacro r).out = some b) ∧
    ((outputMacro r).flag = false → (outputMacro r).out = none) := by
  cases r <;> simp [outputMacro]

theorem C11_verdict_iff_ok (r : Api Bool) :
    ((boolMacro r).flag = true ↔ ∃ v, r = .ok v) ∧ (∀ v, r = .ok v → (boolMacro r).out = some v) := by
  cases r <;> simp [boolMacro]

theorem C11_call_flag_iff_ok (r : Api Unit) : (callMacro r).flag = true ↔ r = .ok () := by
  cases r <;> simp [callMacro]

end Zk
