import ZkModel.Generated.FfiTable
import ZkModel.Basic
/-!
# C11 — the C FFI is the Rust API, argument for argument

`Generated/FfiTable.lean` is rewritten from `rln/src/ffi.rs` on every run: one row per
`extern "C"` function with the macro it expands, the `RLN` method it calls, the arguments it hands
over (in order), the output / verdict pointer and the C parameter list. The theorems say that every
function forwards exactly its own parameters, in API order, to the method of the same name (with
the three documented exceptions), and the model of the four macros says what is reported.
-/
namespace Zk
open Zk.Generated.Ffi

/-- the method an FFI function of this name must call -/
def expectedMethod (name : String) : String :=
  if name = "seq_atomic_operation" then "atomic_operation"
  else if name = "hash" then "public_hash"
  else if name = "poseidon_hash" then "public_poseidon_hash"
  else name

/-- the arguments the method must receive: the C parameters without the context and without the
    output pointer, in the same order; the sequential batch starts at the current leaf count -/
def expectedArgs (r : Row) : List String :=
  let ins := r.params.filter (fun p => p ≠ "ctx" ∧ p ≠ r.out)
  if r.name = "seq_atomic_operation" then "ctx.process().leaves_set()" :: ins else ins

def rowOk (r : Row) : Bool :=
  decide (r.method = expectedMethod r.name) &&
  (r.kind == "constructor" || decide (r.args = expectedArgs r)) &&
  -- the output pointer, when there is one, is the last C parameter
  (r.out == "" || r.kind == "constructor" || decide (r.params.getLast? = some r.out))

theorem C11_every_function_forwards_its_own_arguments :
    ∃ t, table = some t ∧ t.all rowOk = true := ⟨_, rfl, by decide⟩

/-- the set of exported functions and the macro each one expands -/
theorem C11_exported_functions :
    table.map (·.map (fun r => (r.name, r.kind))) = some [
      ("new", "constructor"), ("new_with_params", "constructor"), ("set_tree", "call"), ("delete_leaf", "call"),
      ("set_leaf", "call"), ("get_leaf", "call_with_output_arg"), ("leaves_set", "direct"), ("set_next_leaf", "call"),
      ("set_leaves_from", "call"), ("init_tree_with_leaves", "call"), ("atomic_operation", "call"),
      ("seq_atomic_operation", "call"), ("get_root", "call_with_output_arg"), ("get_proof", "call_with_output_arg"),
      ("prove", "call_with_output_arg"), ("verify", "call_with_bool_arg"), ("generate_rln_proof", "call_with_output_arg"),
      ("generate_rln_proof_with_witness", "call_with_output_arg"), ("verify_rln_proof", "call_with_bool_arg"),
      ("verify_with_roots", "call_with_bool_arg"), ("key_gen", "call_with_output_arg"), ("seeded_key_gen", "call_with_output_arg"),
      ("extended_key_gen", "call_with_output_arg"), ("seeded_extended_key_gen", "call_with_output_arg"),
      ("recover_id_secret", "call_with_output_arg"), ("set_metadata", "call"), ("get_metadata", "call_with_output_arg"),
      ("flush", "call"), ("hash", "no_ctx_call_with_output_arg"), ("poseidon_hash", "no_ctx_call_with_output_arg")] := by decide

/-- the sequential batch wrapper starts at the current leaf count -/
theorem C11_seq_batch_starts_at_leaf_count :
    ∃ t r, table = some t ∧ r ∈ t ∧ r.name = "seq_atomic_operation" ∧ r.method = "atomic_operation" ∧
      r.args = ["ctx.process().leaves_set()", "leaves_buffer", "indices_buffer"] :=
  ⟨_, ⟨"seq_atomic_operation", "call", "atomic_operation", ["ctx.process().leaves_set()", "leaves_buffer", "indices_buffer"], "",
      ["ctx", "leaves_buffer", "indices_buffer"]⟩, rfl, by decide, rfl, rfl, rfl⟩

/-! ## what the macros report (model of `call!`, `call_with_output_arg!`, `call_with_bool_arg!`) -/

/-- result of an API method as seen by a macro: `Ok(v)` or `Err` (a panic aborts the process: C12/C13) -/
inductive Api (α : Type) | ok (v : α) | err

/-- what the C caller observes: the success flag and, when set, the output -/
structure Seen (α : Type) where
  flag : Bool
  out : Option α
deriving DecidableEq

def callMacro : Api Unit → Seen Unit
  | .ok _ => ⟨true, none⟩
  | .err => ⟨false, none⟩

def outputMacro : Api (List UInt8) → Seen (List UInt8)
  | .ok bytes => ⟨true, some bytes⟩       -- `*output = Buffer::from(&output_data[..])`, the vector is leaked to the caller
  | .err => ⟨false, none⟩                 -- the output pointer is not written

def boolMacro : Api Bool → Seen Bool
  | .ok v => ⟨true, some v⟩
  | .err => ⟨false, none⟩

/-- success is reported exactly when the API returned `Ok`, and then the output is exactly what the API wrote -/
theorem C11_flag_iff_ok (r : Api (List UInt8)) :
    ((outputMacro r).flag = true ↔ ∃ b, r = .ok b) ∧ (∀ b, r = .ok b → (outputMacro r).out = some b) ∧
    ((outputMacro r).flag = false → (outputMacro r).out = none) := by
  cases r <;> simp [outputMacro]

theorem C11_verdict_iff_ok (r : Api Bool) :
    ((boolMacro r).flag = true ↔ ∃ v, r = .ok v) ∧ (∀ v, r = .ok v → (boolMacro r).out = some v) := by
  cases r <;> simp [boolMacro]

theorem C11_call_flag_iff_ok (r : Api Unit) : (callMacro r).flag = true ↔ r = .ok () := by
  cases r <;> simp [callMacro]

end Zk
