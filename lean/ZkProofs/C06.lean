import ZkProofs.Lemmas.TreeRun
import ZkProofs.Lemmas.TreeRunLemmas
import ZkProofs.Lemmas.FullProofs
import ZkProofs.Lemmas.OptimalProofs
import ZkProofs.Lemmas.IdealProofs
/-!
# C06 — every tree backend is the ideal hash tree, on every history

`Tree.Ideal` is the specification (a plain array of leaves hashed pairwise from the default leaf).
For every sequence of `set / delete / append / setRange / batch / reset` calls started from the
freshly constructed tree, the flat tree (`Tree.Full`) and the sparse tree (`Tree.Optimal`, for every
lawful map `M`) are related to the ideal tree run on the same calls; all observables coincide; a
call is accepted by a backend exactly when the specification accepts it; a rejected call changes
nothing. Generic in the node type `α`, the hash `H` and the default leaf `dflt`.

The persistent backend is in `C06Pm.lean`.
-/
namespace Zk

open Tree

variable {α : Type} [Inhabited α] (H : α → α → α) (dflt : α)

/-! ### concrete instance used by the non-vacuity examples -/

/-- a toy two-to-one function on `Nat` -/
def C06.exH : Nat → Nat → Nat := fun a b => 1000 * a + b + 7
/-- depth 2 (capacity 4); `set 9 1` is rejected, `delete 0` resets a written leaf -/
def C06.exOps : List (TreeOp Nat) := [.set 1 5, .set 9 1, .append 3, .set 0 8, .delete 0]
abbrev C06.ExM := AList (Nat × Nat) Nat

/-! ## FullMerkleTree -/

theorem C06_full_refines : ∀ (d : Nat) (ops : List (TreeOp α)),
    Tree.Full.Rel H dflt (Tree.Full.run H dflt d ops) (Tree.Ideal.run dflt d ops) :=
  fun d ops => Full.run_rel H dflt d ops

example := C06_full_refines C06.exH 0 2 C06.exOps
example : (Tree.Full.run C06.exH 0 2 C06.exOps).root = 15014 ∧
    (Tree.Ideal.run 0 2 C06.exOps).root C06.exH 0 = 15014 := by decide

theorem C06_full_observables : ∀ (d : Nat) (ops : List (TreeOp α)),
    (Tree.Full.run H dflt d ops).root = (Tree.Ideal.run dflt d ops).root H dflt ∧
    (Tree.Full.run H dflt d ops).next = (Tree.Ideal.run dflt d ops).next ∧
    (∀ i, (Tree.Full.run H dflt d ops).get i =
      if i < 2 ^ d then .ok ((Tree.Ideal.run dflt d ops).leaf dflt i) else .err) ∧
    (∀ l i, (Tree.Full.run H dflt d ops).getSubtreeRoot l i =
      if l > d ∨ i ≥ 2 ^ d then .err
      else .ok ((Tree.Ideal.run dflt d ops).node H dflt l (i / 2 ^ (d - l)))) := by
  intro d ops
  have h := Full.obs_eq H dflt _ _ (C06_full_refines H dflt d ops)
  rw [Ideal.run_depth] at h
  exact ⟨h.1, h.2.1, h.2.2.1, h.2.2.2.1⟩

example : (Tree.Full.run C06.exH 0 2 C06.exOps).next = 3 ∧
    (Tree.Full.run C06.exH 0 2 C06.exOps).get 1 = .ok 5 ∧
    (Tree.Full.run C06.exH 0 2 C06.exOps).get 0 = .ok 0 ∧
    (Tree.Full.run C06.exH 0 2 C06.exOps).get 4 = .err ∧
    (Tree.Full.run C06.exH 0 2 C06.exOps).getSubtreeRoot 1 3 = .ok 3007 ∧
    (Tree.Ideal.run 0 2 C06.exOps).node C06.exH 0 1 1 = 3007 := by decide

/-- on every reachable state, the flat tree accepts a call iff the specification does -/
theorem C06_full_accepts_iff : ∀ (d : Nat) (ops : List (TreeOp α)) (op : TreeOp α),
    Tree.Full.stepOut H dflt (Tree.Full.run H dflt d ops) op = true ↔
    Tree.Ideal.stepOut dflt (Tree.Ideal.run dflt d ops) op = true := by
  intro d ops op
  rw [Full.stepOut_eq H dflt (C06_full_refines H dflt d ops) op]

example : Tree.Full.stepOut C06.exH 0 (Tree.Full.run C06.exH 0 2 [.set 1 5]) (.set 9 1) = false ∧
    Tree.Ideal.stepOut 0 (Tree.Ideal.run 0 2 [.set 1 5]) (.set 9 1) = false ∧
    Tree.Full.stepOut C06.exH 0 (Tree.Full.run C06.exH 0 2 [.set 1 5]) (.set 3 1) = true ∧
    Tree.Ideal.stepOut 0 (Tree.Ideal.run 0 2 [.set 1 5]) (.set 3 1) = true := by decide

/-- a call the specification rejects leaves the flat tree (and the specification) exactly as it was -/
theorem C06_full_rejected_changes_nothing : ∀ (d : Nat) (ops : List (TreeOp α)) (op : TreeOp α),
    Tree.Ideal.stepOut dflt (Tree.Ideal.run dflt d ops) op = false →
    Tree.Full.step H dflt (Tree.Full.run H dflt d ops) op = Tree.Full.run H dflt d ops ∧
    Tree.Ideal.step dflt (Tree.Ideal.run dflt d ops) op = Tree.Ideal.run dflt d ops :=
  fun d ops op hr => Full.step_of_rejected H dflt (C06_full_refines H dflt d ops) op hr

example := C06_full_rejected_changes_nothing C06.exH 0 2 [.set 1 5] (.setRange 3 [1, 2]) (by decide)

/-! ## OptimalMerkleTree, for every lawful node map `M` -/

variable (M : Type) [MapLike M (Nat × Nat) α] [LawfulMapLike M (Nat × Nat) α]

theorem C06_optimal_refines : ∀ d : Nat, 0 < d → ∀ ops : List (TreeOp α),
    Tree.Optimal.Rel H dflt (Tree.Optimal.run (M := M) H dflt d ops) (Tree.Ideal.run dflt d ops) :=
  fun d hd ops => Optimal.run_rel M H dflt d hd ops

example := C06_optimal_refines C06.exH 0 C06.ExM 2 (by decide) C06.exOps
example : (Tree.Optimal.run (M := C06.ExM) C06.exH 0 2 C06.exOps).root = 15014 := by decide

theorem C06_optimal_observables : ∀ d : Nat, 0 < d → ∀ ops : List (TreeOp α),
    (Tree.Optimal.run (M := M) H dflt d ops).root = (Tree.Ideal.run dflt d ops).root H dflt ∧
    (Tree.Optimal.run (M := M) H dflt d ops).next = (Tree.Ideal.run dflt d ops).next ∧
    (∀ i, (Tree.Optimal.run (M := M) H dflt d ops).get i =
      if i < 2 ^ d then .ok ((Tree.Ideal.run dflt d ops).leaf dflt i) else .err) ∧
    (∀ l i, (Tree.Optimal.run (M := M) H dflt d ops).getSubtreeRoot l i =
      if l > d ∨ i ≥ 2 ^ d then .err
      else .ok ((Tree.Ideal.run dflt d ops).node H dflt l (i / 2 ^ (d - l)))) := by
  intro d hd ops
  have h := Optimal.obs_eq M H dflt _ _ (C06_optimal_refines H dflt M d hd ops)
  rw [Ideal.run_depth] at h
  exact ⟨h.1, h.2.1, h.2.2.1, h.2.2.2.1⟩

example : (Tree.Optimal.run (M := C06.ExM) C06.exH 0 2 C06.exOps).next = 3 ∧
    (Tree.Optimal.run (M := C06.ExM) C06.exH 0 2 C06.exOps).get 1 = .ok 5 ∧
    (Tree.Optimal.run (M := C06.ExM) C06.exH 0 2 C06.exOps).get 0 = .ok 0 ∧
    (Tree.Optimal.run (M := C06.ExM) C06.exH 0 2 C06.exOps).get 4 = .err ∧
    (Tree.Optimal.run (M := C06.ExM) C06.exH 0 2 C06.exOps).getSubtreeRoot 1 3 = .ok 3007 := by decide

theorem C06_optimal_accepts_iff : ∀ d : Nat, 0 < d → ∀ (ops : List (TreeOp α)) (op : TreeOp α),
    Tree.Optimal.stepOut H dflt (Tree.Optimal.run (M := M) H dflt d ops) op = true ↔
    Tree.Ideal.stepOut dflt (Tree.Ideal.run dflt d ops) op = true := by
  intro d hd ops op
  rw [Optimal.stepOut_eq M H dflt (C06_optimal_refines H dflt M d hd ops) op]

example :
    Tree.Optimal.stepOut C06.exH 0 (Tree.Optimal.run (M := C06.ExM) C06.exH 0 2 [.set 1 5]) (.set 9 1) = false ∧
    Tree.Optimal.stepOut C06.exH 0 (Tree.Optimal.run (M := C06.ExM) C06.exH 0 2 [.set 1 5]) (.set 3 1) = true := by
  decide

theorem C06_optimal_rejected_changes_nothing : ∀ d : Nat, 0 < d →
    ∀ (ops : List (TreeOp α)) (op : TreeOp α),
    Tree.Ideal.stepOut dflt (Tree.Ideal.run dflt d ops) op = false →
    Tree.Optimal.step H dflt (Tree.Optimal.run (M := M) H dflt d ops) op
      = Tree.Optimal.run (M := M) H dflt d ops ∧
    Tree.Ideal.step dflt (Tree.Ideal.run dflt d ops) op = Tree.Ideal.run dflt d ops :=
  fun d hd ops op hr => Optimal.step_of_rejected M H dflt (C06_optimal_refines H dflt M d hd ops) op hr

example := C06_optimal_rejected_changes_nothing C06.exH 0 C06.ExM 2 (by decide) [.set 1 5]
  (.batch 0 [] []) (by decide)

/-- both backends: a call the specification rejects changes nothing -/
theorem C06_rejected_changes_nothing : ∀ d : Nat, 0 < d →
    ∀ (ops : List (TreeOp α)) (op : TreeOp α),
    Tree.Ideal.stepOut dflt (Tree.Ideal.run dflt d ops) op = false →
    Tree.Full.step H dflt (Tree.Full.run H dflt d ops) op = Tree.Full.run H dflt d ops ∧
    Tree.Optimal.step H dflt (Tree.Optimal.run (M := M) H dflt d ops) op
      = Tree.Optimal.run (M := M) H dflt d ops :=
  fun d hd ops op hr => ⟨(C06_full_rejected_changes_nothing H dflt d ops op hr).1,
    (C06_optimal_rejected_changes_nothing H dflt M d hd ops op hr).1⟩

example := C06_rejected_changes_nothing C06.exH 0 C06.ExM 2 (by decide) [.set 1 5] (.set 4 1) (by decide)

/-! ## the two in-memory backends cannot be told apart -/

theorem C06_backends_agree : ∀ d : Nat, 0 < d → ∀ ops : List (TreeOp α),
    (Tree.Full.run H dflt d ops).root = (Tree.Optimal.run (M := M) H dflt d ops).root ∧
    (Tree.Full.run H dflt d ops).next = (Tree.Optimal.run (M := M) H dflt d ops).next ∧
    (∀ i, (Tree.Full.run H dflt d ops).get i = (Tree.Optimal.run (M := M) H dflt d ops).get i) ∧
    (∀ l i, (Tree.Full.run H dflt d ops).getSubtreeRoot l i =
      (Tree.Optimal.run (M := M) H dflt d ops).getSubtreeRoot l i) ∧
    (Tree.Full.run H dflt d ops).emptyIdx = (Tree.Optimal.run (M := M) H dflt d ops).emptyIdx ∧
    (∀ i, (Tree.Full.run H dflt d ops).proof i = (Tree.Optimal.run (M := M) H dflt d ops).proof i) := by
  intro d hd ops
  obtain ⟨f1, f2, f3, f4, f5, f6⟩ := Full.obs_eq H dflt _ _ (C06_full_refines H dflt d ops)
  obtain ⟨o1, o2, o3, o4, o5, o6⟩ := Optimal.obs_eq M H dflt _ _ (C06_optimal_refines H dflt M d hd ops)
  refine ⟨f1.trans o1.symm, f2.trans o2.symm, ?_, ?_, f5.trans o5.symm, ?_⟩
  · intro i; rw [f3, o3]
  · intro l i; rw [f4, o4]
  · intro i; rw [f6, o6]

example : (Tree.Full.run C06.exH 0 2 C06.exOps).emptyIdx = [0] ∧
    (Tree.Optimal.run (M := C06.ExM) C06.exH 0 2 C06.exOps).emptyIdx = [0] ∧
    (Tree.Full.run C06.exH 0 2 C06.exOps).proof 2 = .ok [(0, 0), (12, 1)] ∧
    (Tree.Optimal.run (M := C06.ExM) C06.exH 0 2 C06.exOps).proof 2 = .ok [(0, 0), (12, 1)] := by decide

end Zk
