import ZkProofs.Lemmas.BytesProofs
/-!
# C10 — the byte codecs are inverse to each other and strict

`fr_to_bytes_le` / `bytes_le_to_fr`, the length-prefixed vector codecs, the witness codec
(`serialize_witness` / `deserialize_witness`), the proof-values codec and the request layout of
`prepare_prove_input` / `proof_inputs_to_rln_witness`: serialising canonical data and decoding it
gives the data back together with the number of bytes written; decoding never returns a value at or
above the field order; the witness decoder never panics, accepts only inputs whose length is exactly
the one fixed by the two counts, and so rejects every extension and every truncation of an accepted
encoding.
-/
namespace Zk
open Zk.Codec Zk.Protocol Zk.Public Zk.Proto

/-! ## concrete values for the non-vacuity checks -/

def C10.exW : Witness :=
  ⟨11, 100, 3, [P - 1, 5], [0, 1], 77, P - 2⟩
def C10.exV : ProofValues := ⟨P - 1, 2, 3, 4, 5⟩
/-- the encoding of `exW` -/
def C10.exBytes : List UInt8 :=
  match serializeWitness C10.exW with
  | .ok b => b
  | _ => []

/-! ## field elements -/

theorem C10_fr_roundtrip : ∀ v : Nat, v < P →
    (frToBytesLe v).length = 32 ∧ bytesLeToFr (frToBytesLe v) = .ok (v, 32) :=
  Proto.fr_roundtrip

example : P - 1 < P ∧ bytesLeToFr (frToBytesLe (P - 1)) = .ok (P - 1, 32) := by decide +kernel

/-- decoding never yields a non-canonical value, whatever the bytes -/
theorem C10_fr_decode_canonical : ∀ (bs : List UInt8) (v n : Nat),
    bytesLeToFr bs = .ok (v, n) → v < P ∧ n = 32 :=
  Proto.fr_decode_canonical

/-- 32 bytes holding `P + 3` decode (reduced) to `3` -/
example : bytesLeToFr (natLE 32 (P + 3)) = .ok (3, 32) := by decide +kernel

/-! ## vectors -/

theorem C10_vecFr_roundtrip : ∀ l : List Nat, (∀ e ∈ l, e < P) → l.length < 2 ^ 64 →
    (vecFrToBytesLe l).length = 8 + 32 * l.length ∧
    bytesLeToVecFr (vecFrToBytesLe l) = .ok (l, 8 + 32 * l.length) :=
  Proto.vecFr_roundtrip

example : (∀ e ∈ [P - 1, 0, 5], e < P) ∧ [P - 1, 0, 5].length < 2 ^ 64 ∧
    bytesLeToVecFr (vecFrToBytesLe [P - 1, 0, 5]) = .ok ([P - 1, 0, 5], 104) := by decide +kernel

theorem C10_vecU8_roundtrip : ∀ l : List UInt8, l.length < 2 ^ 64 →
    bytesLeToVecU8 (vecU8ToBytesLe l) = .ok (l, 8 + l.length) :=
  Proto.vecU8_roundtrip

example : bytesLeToVecU8 (vecU8ToBytesLe [1, 0, 255]) = .ok ([1, 0, 255], 11) := by decide +kernel

theorem C10_vecUsize_roundtrip : ∀ l : List Nat, (∀ e ∈ l, e < 2 ^ 64) → l.length < 2 ^ 64 →
    bytesLeToVecUsize (serializeVecUsize l) = .ok l :=
  Proto.vecUsize_roundtrip

example : (∀ e ∈ [0, 2 ^ 64 - 1, 7], e < 2 ^ 64) ∧
    bytesLeToVecUsize (serializeVecUsize [0, 2 ^ 64 - 1, 7]) = .ok [0, 2 ^ 64 - 1, 7] := by
  decide +kernel

/-! ## witness -/

theorem C10_witness_roundtrip : ∀ w : Witness, CanonW w → w.messageId < w.userMessageLimit →
    ∃ bs, serializeWitness w = .ok bs ∧
      bs.length = 96 + (8 + 32 * w.pathElements.length) + (8 + w.identityPathIndex.length) + 64 ∧
      deserializeWitness bs = .ok (w, bs.length) :=
  Proto.witness_roundtrip

example : CanonW C10.exW ∧ C10.exW.messageId < C10.exW.userMessageLimit := by
  unfold CanonW; decide +kernel
example : serializeWitness C10.exW = .ok C10.exBytes ∧ C10.exBytes.length = 242 ∧
    deserializeWitness C10.exBytes = .ok (C10.exW, 242) := by decide +kernel

/-- a successful decode consumed exactly the whole input, whose length is determined by the two
    counts, and passed the message-id range check -/
theorem C10_witness_exact_length : ∀ (bs : List UInt8) (w : Witness) (n : Nat),
    deserializeWitness bs = .ok (w, n) →
    n = bs.length ∧
    bs.length = 96 + (8 + 32 * w.pathElements.length) + (8 + w.identityPathIndex.length) + 64 ∧
    w.messageId < w.userMessageLimit :=
  Proto.witness_exact_length

example := C10_witness_exact_length C10.exBytes C10.exW 242 (by decide +kernel)

/-- no encoding with trailing bytes and no truncated encoding decodes -/
theorem C10_witness_no_trailing_or_missing_bytes : ∀ (bs : List UInt8) (w : Witness) (n : Nat),
    deserializeWitness bs = .ok (w, n) →
    (∀ extra : List UInt8, extra ≠ [] → deserializeWitness (bs ++ extra) = .err) ∧
    (∀ k : Nat, k < bs.length → deserializeWitness (bs.take k) = .err) :=
  Proto.witness_no_slack

example := C10_witness_no_trailing_or_missing_bytes C10.exBytes C10.exW 242 (by decide +kernel)
example : deserializeWitness (C10.exBytes ++ [0]) = .err ∧
    deserializeWitness (C10.exBytes.take 241) = .err ∧
    deserializeWitness (C10.exBytes.take 100) = .err := by decide +kernel

theorem C10_witness_decode_total : ∀ bs : List UInt8, deserializeWitness bs ≠ .panic :=
  Proto.witness_decode_total

/-- a declared path count far beyond the input is an error, not a crash -/
example : deserializeWitness (C10.exBytes.take 96 ++ natLE 8 (2 ^ 64 - 1) ++ C10.exBytes.drop 104) = .err := by
  decide +kernel

/-! ## proof values and the proving request -/

theorem C10_proofValues_roundtrip : ∀ v : ProofValues, CanonV v →
    (serializeProofValues v).length = 160 ∧
    deserializeProofValues (serializeProofValues v) = .ok (v, 160) :=
  Proto.proofValues_roundtrip

example : CanonV C10.exV ∧
    deserializeProofValues (serializeProofValues C10.exV) = .ok (C10.exV, 160) := by
  unfold CanonV; decide +kernel

/-- the request layout read by `proof_inputs_to_rln_witness` is the one written by
    `prepare_prove_input` -/
theorem C10_proveInput_roundtrip : ∀ (h2f : List UInt8 → Nat) (treeProof : Nat → Outcome (List (Nat × Nat)))
    (s i lim m e : Nat) (signal : List UInt8) (π : List (Nat × Nat)),
    s < P → lim < P → m < P → e < P → i < 2 ^ 64 → signal.length < 2 ^ 64 → treeProof i = .ok π →
    proofInputsToWitness h2f treeProof (prepareProveInput s i lim m e signal) =
      .ok ({ identitySecret := s, userMessageLimit := lim, messageId := m, pathElements := π.map (·.1),
             identityPathIndex := π.map (fun x => x.2.toUInt8), x := h2f signal, externalNullifier := e }, 144) :=
  Proto.proveInput_roundtrip

example : proofInputsToWitness (fun b => b.length) (fun i => if i = 6 then .ok [(9, 0), (8, 1)] else .err)
      (prepareProveInput 11 6 100 3 (P - 2) [1, 2, 3]) =
    .ok (⟨11, 100, 3, [9, 8], [0, 1], 3, P - 2⟩, 144) := by decide +kernel

end Zk
