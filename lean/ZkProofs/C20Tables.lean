import ZkModel.Generated.ProtoTables
import ZkModel.Graph.Storage
/-!
# C20 — the operator tables of the container are the ones the model uses (translator-fed)

`Generated/ProtoTables.lean` is rewritten from `proto.rs`, `storage.rs` and `graph.rs` on every run:
the numbering of the protobuf enums and the `From` tables between graph operators and protobuf
operators (constructor names on both sides). These theorems say: both directions map every operator
to the operator of the same name, list the enum completely and in order, and the numbering is the
one the model's conversions `Storage.opCode` / `opOfCode` use.
-/
namespace Zk
open Zk.Generated.Proto Zk.Graph Zk.Graph.Storage

def allOps : List Op :=
  [.Mul, .Div, .Add, .Sub, .Pow, .Idiv, .Mod, .Eq, .Neq, .Lt, .Gt, .Leq, .Geq, .Land, .Lor, .Shl, .Shr, .Bor, .Band, .Bxor]

def opName : Op → String
  | .Mul => "Mul" | .Div => "Div" | .Add => "Add" | .Sub => "Sub" | .Pow => "Pow" | .Idiv => "Idiv" | .Mod => "Mod"
  | .Eq => "Eq" | .Neq => "Neq" | .Lt => "Lt" | .Gt => "Gt" | .Leq => "Leq" | .Geq => "Geq" | .Land => "Land"
  | .Lor => "Lor" | .Shl => "Shl" | .Shr => "Shr" | .Bor => "Bor" | .Band => "Band" | .Bxor => "Bxor"

/-- the numbering in `proto.rs` is exactly the model's `opCode`, for every operator -/
theorem C20_enum_numbering :
    enumDuoOp = some (allOps.map (fun o => (opName o, opCode o))) ∧
    enumUnoOp = some [("Neg", 0), ("Id", 1)] ∧ enumTresOp = some [("TernCond", 0)] := by decide

theorem C20_opCode_inverse : (∀ o : Op, opOfCode (opCode o) = some o) ∧ allOps.length = 20 := by
  refine ⟨?_, rfl⟩
  intro o; cases o <;> rfl

/-- both `From` directions are the identity on names, complete and in enum order -/
theorem C20_operator_tables_identity :
    fromProtoDuo = some (allOps.map (fun o => (opName o, opName o))) ∧
    toProtoDuo = some (allOps.map (fun o => (opName o, opName o))) ∧
    fromProtoUno = some [("Neg", "Neg"), ("Id", "Id")] ∧ toProtoUno = some [("Neg", "Neg"), ("Id", "Id")] ∧
    fromProtoTres = some [("TernCond", "TernCond")] := by decide

end Zk
