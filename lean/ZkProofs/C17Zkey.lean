import ZkProofs.Lemmas.ZkeyProofs
/-!
# C17 / C01 — the snarkjs key-file reader (`rln/src/circuit/zkey.rs`, anchor `:56 read_zkey`)

The model (`ZkModel/Zkey.lean`) is tied to the code by the C17 correspondence stream `zkey-reader`: the bundled
`rln_final.zkey` (3.4 MB) read natively by the Lean driver and by `read_zkey` — through a `Cursor`, a `BufReader<File>` and
readers that hand out a few bytes per `read()` — with the digest of every point of the proving key (raw Montgomery limbs, in
reading order) and of both constraint matrices compared, the key the build actually loaded compared with the same digest, and
generated key files with 23 kinds of deviation (outcome `ok digest | err | panic`).  The theorems are about the model, for
every byte string / record list.  What the property itself asks of the two BUNDLED files (zkey = arkzkey) is decided by
running `==` on the loaded values in the arkzkey build (checks/c17.py); these theorems say what `read_zkey` computes from ANY
file, which is what makes "the matrices of the snarkjs file" a defined notion.
-/
namespace Zk
open Zk.Zkey

/-- the model's cursor is a `Cursor<&[u8]>` -/
theorem C17_zkey_cursor_reads : CursorReadStmt := Zkey.cursor_read
example : (Cur.at [1, 2, 3, 4, 5] 1).read 3 = .ok ([2, 3, 4], Cur.at [1, 2, 3, 4, 5] 4) ∧
    (Cur.at [1, 2, 3] 2).read 2 = .err ∧ (Cur.at [1, 2, 3] 7).read 1 = .err := by decide +kernel
/-- the first form of that statement was false (zero-length reads beyond the end succeed) -/
theorem C17_zkey_cursor_original_statement_false : ¬ CursorReadStmtOriginal := Zkey.cursor_read_false

/-- the first section with an id is the one that counts -/
theorem C17_zkey_first_section_wins : SectionFirstWinsStmt := Zkey.section_first_wins
example : getSection [⟨1, 12, 4⟩, ⟨4, 40, 8⟩, ⟨2, 60, 9⟩, ⟨4, 90, 8⟩] 4 = .ok ⟨4, 40, 8⟩ := by decide +kernel

/-- a missing section is a panic, not an error -/
theorem C17_zkey_missing_section_panics : SectionMissingStmt := Zkey.section_missing
example : getSection [⟨1, 12, 4⟩, ⟨2, 60, 9⟩] 4 = .panic := by decide +kernel

/-- files that list the same sections in another order are read alike -/
theorem C17_zkey_section_order_irrelevant : SectionOrderIrrelevantStmt := Zkey.section_order_irrelevant
example : getSection [⟨2, 60, 9⟩, ⟨4, 40, 8⟩] 4 = getSection [⟨4, 40, 8⟩, ⟨2, 60, 9⟩] 4 := by decide +kernel

/-- the record loop: row `r` of matrix `m` is exactly the file's records addressed to it, in file order, values divided
    by R²; a record outside the two matrices or the domain is a panic; never an error -/
theorem C17_zkey_matrix_rows : PushAllSpecStmt := Zkey.push_all_spec
/-- two records for row 1 of A, one for row 0 of B (domain 2), stored value 2·R² ↦ 2 -/
example : pushAll [⟨0, 1, 7, 0⟩, ⟨1, 0, 3, 0⟩, ⟨0, 1, 2, 0⟩] (Array.replicate 2 [], Array.replicate 2 []) =
    .ok (#[[], [(0, 7), (0, 2)]], #[[(0, 3)], []]) := by decide +kernel
example : pushAll [⟨0, 2, 7, 0⟩] (Array.replicate 2 [], Array.replicate 2 []) = .panic ∧
    pushAll [⟨2, 0, 7, 0⟩] (Array.replicate 2 [], Array.replicate 2 []) = .panic := by decide +kernel

/-- stored coefficients are in doubly-Montgomery form: decoded value · R · R = stored value (mod p) -/
theorem C17_zkey_coefficient_value : CoefValueStmt := Zkey.coef_value
theorem C17_zkey_coefficient_canonical : CoefValueCanonicalStmt := Zkey.coef_value_canonical
/-- the stored number `R² mod p` stands for 1 -/
example : coefValue ((2 ^ 256 % P) * (2 ^ 256 % P) % P) = 1 := by decide +kernel

/-- `matrices()`: without wrap-around the result keeps `max constraint index - n_public` rows, each the file's row -/
theorem C17_zkey_matrices : BuildMatricesStmt := Zkey.build_matrices
/-- non-vacuity: one public input, constraints 0 and 1 (+ the public row 2 that is cut off), domain 4 -/
example : buildMatrices ⟨4, 1, 4, (0,0), (0,0), (0,0,0,0), (0,0,0,0), (0,0), (0,0,0,0)⟩
      [⟨0, 0, 1, 0⟩, ⟨1, 1, 2, 0⟩, ⟨0, 2, 0, 0⟩] = .ok ⟨2, 3, 1, 1, 0, [[(0, 1)]], [[]]⟩ := by decide +kernel

end Zk
