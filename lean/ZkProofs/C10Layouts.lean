import ZkModel.Generated.Layouts
import ZkModel.Public
/-!
# C10 — the byte layouts in the source are the documented ones (translator-fed theorems)

`Generated/Layouts.lean` is rewritten from `rln/src/protocol.rs` on every run: the ordered field
lists of each serialiser and deserialiser, the public-input order of `verify_proof`, and the layouts
written in the comments above the functions. These theorems compare them with each other and with
the order used by the hand-written model (`Zk.Protocol`), so that a reordering on either Rust side
— or on both — changes a proof obligation.
-/
namespace Zk
open Zk.Generated.Layouts

/-- field name of an entry such as `x:fr`, `root<32>`, `path_elements[<32>]` -/
def layoutName (s : String) : String := String.ofList (s.toList.takeWhile (fun c => c.isAlphanum || c == '_'))

def names (l : Option (List String)) : Option (List String) := l.map (·.map layoutName)

/-- the order the model `Protocol.serializeWitness` / `deserializeWitness` uses -/
def modelWitnessOrder : List String :=
  ["identity_secret:fr", "user_message_limit:fr", "message_id:fr", "path_elements:vec_fr", "identity_path_index:vec_u8", "x:fr", "external_nullifier:fr"]
/-- the order the model `Protocol.serializeProofValues` / `deserializeProofValues` uses -/
def modelProofValuesOrder : List String := ["root", "external_nullifier", "x", "y", "nullifier"]
/-- the order `Public.publicInputs` uses = the circuit's public signals `[y, root, nullifier, x, externalNullifier]` -/
def modelPublicInputs : List String := ["y", "root", "nullifier", "x", "external_nullifier"]
def modelProveInputOrder : List String :=
  ["identity_secret:fr", "id_index:usize", "user_message_limit:fr", "message_id:fr", "external_nullifier:fr", "signal_len:usize", "signal:raw"]

theorem C10_witness_layout :
    serWitness = some modelWitnessOrder ∧ deWitness = serWitness ∧ names docWitness = names serWitness := by decide

theorem C10_proof_values_layout :
    serProofValues = some modelProofValuesOrder ∧ names deProofValues = serProofValues ∧
    names docProofValues = serProofValues := by decide

theorem C10_prove_input_layout :
    serProveInput = some modelProveInputOrder ∧
    deProveInput = serProveInput.map (·.dropLast) ∧     -- the reader slices the signal after the six fixed fields
    names docProveInput = names serProveInput := by decide

/-- the verification request is the proof followed by the proof values in their serialised order,
    then the signal: the documented layout of `prepare_verify_input` -/
theorem C10_verify_input_layout :
    names docVerifyInput = (serProofValues.map (fun l => ["proof"] ++ l ++ ["signal_len", "signal"])) := by decide

theorem C10_public_input_order : publicInputs = some modelPublicInputs := by decide

/-- the model's `publicInputs` really is that order -/
theorem C10_model_public_inputs (v : Protocol.ProofValues) :
    Public.publicInputs v = [v.y, v.root, v.nullifier, v.x, v.externalNullifier] := rfl

end Zk
