import ZkProofs.C02
/-!
# C17 — the stateless configuration computes the same functions as the stateful ones

`--features stateless` compiles the protocol without a tree: the verifier takes the acceptable roots as an
argument (`verify_with_roots`), the prover takes a complete witness (`generate_rln_proof_with_witness`).
Both are the same code in every build, so the claim "all configurations implement one protocol" reduces to:

* `C17_stateless_verifier_agrees`: given the one-element root set {r}, `verify_with_roots` answers EVERY
  byte string — valid, tampered, truncated, non-canonical — exactly as `verify_rln_proof` on an instance
  whose tree root is r (same verdict, same error).
* `C17_stateless_prover_agrees`: fed the witness a stateful instance derives for a request (as exported by
  `get_serialized_rln_witness`), the witness entry point returns exactly the message the request entry point
  returns — for every SNARK back end and prover satisfying the contract, every tree state.

Together with `C17_all_backends_same_roots_and_paths` (the three tree back ends give the same root and the
same paths on every history) the five build configurations are one protocol at the model level; the five
real builds are compared by the correspondence part of the check.
-/
namespace Zk
open Protocol Public Codec Proto

theorem parseRoots_single (root : Nat) (h : root < P) : parseRoots (32 / 32 + 1) (frToBytesLe root) = [root] := by
  have hl := frToBytesLe_length root
  have : (32 / 32 + 1) = 1 + 1 := by decide
  rw [this]
  simp only [parseRoots]
  have h1 : ¬ (frToBytesLe root).length < 32 := by omega
  simp only [h1, if_false]
  have h2 : ((frToBytesLe root).drop 32).length < 32 := by simp [hl]
  simp only [h2, if_true]
  have h3 : (frToBytesLe root).take 32 = frToBytesLe root := by
    apply List.take_of_length_le; omega
  rw [h3, leNat_frToBytesLe root h]

theorem C17_stateless_verifier_agrees {Pr : Type} (Z : Snark Pr) (h2f : List UInt8 → Nat) (root : Nat) (hr : root < P)
    (bs : List UInt8) :
    verifyWithRoots Z h2f bs (frToBytesLe root) = verifyRlnProof Z h2f root bs := by
  unfold verifyWithRoots verifyRlnProof
  cases hf : verifyFront Z bs with
  | err => rfl
  | panic => rfl
  | ok o =>
    cases o with
    | none => rfl
    | some t =>
      obtain ⟨b, v, signal⟩ := t
      simp only [frToBytesLe_length, parseRoots_single root hr]
      by_cases hb : b = true <;> by_cases hx : h2f signal = v.x <;> by_cases hv : root = v.root <;>
        simp [hb, hx, hv, eq_comm]

/-- non-vacuity: a message the stateful verifier accepts under root 3 and rejects under root 4, and a truncated one
    (an error on both sides) -/
example : verifyRlnProof C02.exZ C02.exH2f 3 (prepareVerifyInput C02.exMsg C02.exSignal) = .ok true ∧
    verifyWithRoots C02.exZ C02.exH2f (prepareVerifyInput C02.exMsg C02.exSignal) (frToBytesLe 3) = .ok true ∧
    verifyWithRoots C02.exZ C02.exH2f (prepareVerifyInput C02.exMsg C02.exSignal) (frToBytesLe 4) = .ok false ∧
    verifyWithRoots C02.exZ C02.exH2f (C02.exMsg.take 200) (frToBytesLe 3) = .err := by decide +kernel

theorem C17_stateless_prover_agrees {Pr : Type} (Z : Snark Pr) (Pv : Prover Pr) (H : List Nat → Nat) (h2f : List UInt8 → Nat)
    (depth : Nat) (pf : Nat → Outcome (List (Nat × Nat))) (bs : List UInt8) (w : Witness) (n : Nat)
    (hw : proofInputsToWitness h2f pf bs = .ok (w, n)) (hc : CanonW w) (hlt : w.messageId < w.userMessageLimit) :
    ∃ wb, serializeWitness w = .ok wb ∧
      generateRlnProofWithWitness Z Pv H depth wb = generateRlnProof Z Pv H h2f depth pf bs := by
  obtain ⟨wb, hs, _, hd⟩ := witness_roundtrip w hc hlt
  refine ⟨wb, hs, ?_⟩
  unfold generateRlnProofWithWitness generateRlnProof
  rw [hd, hw]

/-- non-vacuity: a 146-byte request on a two-level tree whose derived witness is canonical and in range -/
def C17.exReq : List UInt8 :=
  frToBytesLe 5 ++ normalizeUsize 1 ++ frToBytesLe 100 ++ frToBytesLe 3 ++ frToBytesLe 9 ++ normalizeUsize 2 ++ [7, 8]
def C17.exPf : Nat → Outcome (List (Nat × Nat)) := fun _ => .ok [(11, 1), (12, 0)]
def C17.exW : Witness :=
  { identitySecret := 5, userMessageLimit := 100, messageId := 3, pathElements := [11, 12], identityPathIndex := [1, 0],
    x := 3, externalNullifier := 9 }
example : proofInputsToWitness C02.exH2f C17.exPf C17.exReq = .ok (C17.exW, 144) ∧ CanonW C17.exW ∧
    C17.exW.messageId < C17.exW.userMessageLimit :=
  ⟨by decide +kernel, by unfold CanonW; decide +kernel, by decide⟩

end Zk
