import ZkProofs.C18
import ZkModel.Generated.SledFacts
/-!
# C16 (and C18's re-create clause) — re-opening an existing tree keeps it while the file lock is merely busy

Found by running the C16 correspondence under other seeds: `SledDB::load` called `config.open()` once; when the lock of
the instance dropped a moment earlier was not released yet it failed with `WouldBlock`, `PmTree::new` took that for
"no tree here" and fell back to `MerkleTree::new`, which re-initialised the flushed database (fix 630b389).
The model is `Retry.reopenExisting` (ZkModel/Par.lean); how `load` opens the database is regenerated from
utils/src/pm_tree/sled_adapter.rs on every run (`Generated.Sled`).
-/
namespace Zk
open Retry

/-- the lock frees within the retry budget: busy answers only, then a successful open before the tenth attempt -/
def LockFrees (outcomes : Nat → OpenResult) : Prop :=
  ∃ k, k < 10 ∧ outcomes k = .ok ∧ ∀ j, j < k → outcomes j = .wouldBlock

/-- with a `load` that opens through the retry loop, the existing tree is kept whenever the lock frees in time -/
theorem C16_reopen_keeps_tree_when_lock_frees (outcomes : Nat → OpenResult) (h : LockFrees outcomes) :
    reopenExisting true outcomes = .kept := by
  have hs : (open_ outcomes).success = true := ((C18_retry_bounded outcomes).2.1).2 h
  simp [reopenExisting, loadOpen, hs]

/-- and it is re-initialised only if the retry loop of `load` gave up (never while `LockFrees`) -/
theorem C16_reopen_reinitialises_only_when_load_gave_up (outcomes : Nat → OpenResult)
    (h : reopenExisting true outcomes = .reinitialised) : ¬ LockFrees outcomes := by
  intro hl
  rw [C16_reopen_keeps_tree_when_lock_frees outcomes hl] at h
  cases h

/-- the source as it is now: both open paths go through `new_with_tries`, ten attempts, sleeping 10^tries ms -/
theorem C16_current_source_opens_through_retry :
    Generated.Sled.loadOpensThroughRetry = some true ∧ Generated.Sled.newOpensThroughRetry = some true ∧
    Generated.Sled.retryLimit = some 10 ∧ Generated.Sled.sleepBase = some 10 := by decide

/-- hence, for the current source, a busy lock that frees in time never costs the stored tree -/
theorem C16_current_source_reopen_keeps_tree (outcomes : Nat → OpenResult) (h : LockFrees outcomes) :
    reopenExisting (Generated.Sled.loadOpensThroughRetry.getD false) outcomes = .kept := by
  rw [C16_current_source_opens_through_retry.1]
  exact C16_reopen_keeps_tree_when_lock_frees outcomes h

/-- the pinned code before the fix (single `config.open()` in `load`): ONE busy answer re-initialises the tree — the
    history the correspondence found (VERIF_SEED=2 and 4, about one reopen in a thousand) -/
theorem C16_single_open_load_loses_tree :
    LockFrees (fun k => if k = 0 then .wouldBlock else .ok) ∧
    reopenExisting false (fun k => if k = 0 then .wouldBlock else .ok) = .reinitialised := by
  refine ⟨⟨1, by decide, by decide, ?_⟩, by decide +kernel⟩
  intro j hj
  have : j = 0 := by omega
  subst this
  rfl

/-- non-vacuity: busy twice, then free -/
example : LockFrees (fun k => [OpenResult.wouldBlock, .wouldBlock, .ok].getD k .otherError) :=
  ⟨2, by decide, by decide, fun j hj => by
    have : j = 0 ∨ j = 1 := by omega
    rcases this with rfl | rfl <;> rfl⟩
example : reopenExisting true (fun k => [OpenResult.wouldBlock, .wouldBlock, .ok].getD k .otherError) = .kept := by decide +kernel
/-- a genuine error (not a busy lock) on an existing location still falls through to `new`, which then fails or not on its own -/
example : reopenExisting true (fun _ => .otherError) = .failed := by decide +kernel

end Zk
