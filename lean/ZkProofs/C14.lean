import ZkModel.Keygen
import ZkProofs.Lemmas.BytesLemmas
/-!
# C14 — seeded identity generation (`rln/src/protocol.rs::seeded_keygen`, `extended_seeded_keygen`)
-/
namespace Zk
open Zk.Keygen

/-- every value produced by `Fr::rand` is a canonical field element, and the stream index advances -/
theorem C14_frRand_canonical (key : Array UInt32) (fuel k v k' : Nat) :
    frRand key fuel k = some (v, k') → v < P ∧ k < k' ∧ (k' - k) % 4 = 0 := by
  induction fuel generalizing k with
  | zero => intro h; simp [frRand] at h
  | succ fuel ih =>
    intro h
    simp only [frRand] at h
    split at h
    · simp only [Option.some.injEq, Prod.mk.injEq] at h
      obtain ⟨hv, hk⟩ := h
      subst hv; subst hk
      exact ⟨Nat.mod_lt _ P_pos, by omega, by omega⟩
    · have := ih (k + 4) h
      omega

/-- seeded identities satisfy the commitment relation on canonical elements -/
theorem C14_seeded_identity_valid (H : List Nat → Nat) (seed : List UInt8) (s c : Nat) :
    seededKeygen H seed = some (s, c) → ValidIdentity H s c := by
  intro h
  simp only [seededKeygen] at h
  split at h
  · rename_i s0 k0 hr
    simp only [Option.some.injEq, Prod.mk.injEq] at h
    obtain ⟨hs, hc⟩ := h
    subst hs; subst hc
    exact ⟨(C14_frRand_canonical _ _ _ _ _ hr).1, rfl⟩
  · simp at h

theorem C14_extended_seeded_identity_valid (H : List Nat → Nat) (seed : List UInt8) (t n s c : Nat) :
    extendedSeededKeygen H seed = some (t, n, s, c) → ValidExtendedIdentity H t n s c := by
  intro h
  simp only [extendedSeededKeygen] at h
  split at h
  · simp at h
  · rename_i t0 k0 hr
    split at h
    · simp at h
    · rename_i n0 k1 hr'
      simp only [Option.some.injEq, Prod.mk.injEq] at h
      obtain ⟨ht, hn, hs, hc⟩ := h
      subst ht; subst hn; subst hs; subst hc
      exact ⟨(C14_frRand_canonical _ _ _ _ _ hr).1, (C14_frRand_canonical _ _ _ _ _ hr').1, rfl, rfl⟩

/-- the extended identity's trapdoor is the plain seeded identity's secret (same stream prefix) -/
theorem C14_extended_shares_first_draw (H : List Nat → Nat) (seed : List UInt8) (t n s c s' c' : Nat) :
    extendedSeededKeygen H seed = some (t, n, s, c) → seededKeygen H seed = some (s', c') → t = s' := by
  intro h h'
  simp only [extendedSeededKeygen] at h
  simp only [seededKeygen] at h'
  split at h
  · simp at h
  · rename_i t0 k0 hr
    rw [hr] at h'
    simp only [Option.some.injEq, Prod.mk.injEq] at h'
    split at h
    · simp at h
    · simp only [Option.some.injEq, Prod.mk.injEq] at h
      omega

/-- canonical components encode to 32 bytes that decode back (one encoding per identity) -/
theorem C14_identity_encoding (v : Nat) (hv : v < P) : (natLE 32 v).length = 32 ∧ leNat (natLE 32 v) = v :=
  ⟨natLE_length 32 v, leNat_natLE 32 v (Nat.lt_trans hv P_lt)⟩

/-- Montgomery radix inverse is what it claims to be -/
theorem C14_rInv_spec : (2 ^ 256 % P) * rInv % P = 1 := by decide +kernel

end Zk
