import ZkModel.Keygen
import ZkProofs.Lemmas.BytesLemmas
/-!
# C14 — seeded identity generation (`rln/src/protocol.rs::seeded_keygen`, `extended_seeded_keygen`)

Properties of the model `ZkModel/Keygen.lean` (Keccak-256 → ChaCha20 → `Fr::rand` → Poseidon):
canonicity of every drawn element, the commitment relations of both identity shapes, the shared
first draw, the 32-byte encoding, the Montgomery constant, and the two reference vectors of
`rln/tests/protocol.rs` (evaluated by the kernel, Keccak stage included).
-/
namespace Zk
open Zk.Keygen

/-! ### Reference vectors (`rln/tests/protocol.rs`), evaluated by the kernel stage by stage -/

/-- Keccak-256 digest of the byte seed `[0..9]` -/
def refDigestBytes : List UInt8 :=
  [240, 174, 134, 166, 37, 126, 97, 91, 206, 139, 15, 231, 55, 148, 147, 77, 237, 160, 12, 19, 213, 143, 128, 180,
    102, 169, 53, 78, 48, 108, 158, 176]

/-- Keccak-256 digest of the UTF-8 bytes of `"A seed phrase example"` -/
def refDigestPhrase : List UInt8 :=
  [124, 2, 231, 112, 74, 134, 96, 61, 110, 108, 195, 169, 12, 66, 241, 217, 185, 217, 64, 32, 145, 242, 184, 29,
    150, 150, 68, 50, 246, 126, 202, 74]

/-- Keccak stage, byte seed -/
theorem C14_reference_digest_bytes : Keccak.keccak256 [0,1,2,3,4,5,6,7,8,9] = refDigestBytes := by
  decide +kernel

/-- Keccak stage, phrase seed -/
theorem C14_reference_digest_phrase :
    Keccak.keccak256 "A seed phrase example".toUTF8.toList = refDigestPhrase := by
  decide +kernel

/-- ChaCha20 / `Fr::rand` stage on the first digest: first draw, with the stream position -/
theorem C14_reference_seed_bytes_from_digest :
    frRand (ChaCha.keyOfSeed refDigestBytes) FUEL 0 =
      some (0x766ce6c7e7a01bdf5b3f257616f603918c30946fa23480f2859c597817e6716, 4) := by
  decide +kernel

/-- second draw of the same stream (the nullifier of the extended identity); one candidate is
    rejected on the way, so the stream position advances by 8 -/
theorem C14_reference_second_draw_from_digest :
    frRand (ChaCha.keyOfSeed refDigestBytes) FUEL 4 =
      some (0x1f18714c7bc83b5bca9e89d404cf6f2f585bc4c0f7ed8b53742b7e2b298f50b4, 12) := by
  decide +kernel

theorem C14_reference_seed_phrase_from_digest :
    frRand (ChaCha.keyOfSeed refDigestPhrase) FUEL 0 =
      some (0x20df38f3f00496f19fe7c6535492543b21798ed7cb91aebe4af8012db884eda3, 4) := by
  decide +kernel

/-- the two documented reference seeds (rln/tests/protocol.rs) give the documented secrets -/
theorem C14_reference_seed_bytes :
    (frRand (ChaCha.keyOfSeed (Keccak.keccak256 [0,1,2,3,4,5,6,7,8,9])) FUEL 0).map (·.1) =
      some 0x766ce6c7e7a01bdf5b3f257616f603918c30946fa23480f2859c597817e6716 := by
  rw [C14_reference_digest_bytes, C14_reference_seed_bytes_from_digest]
  rfl

theorem C14_reference_seed_phrase :
    (frRand (ChaCha.keyOfSeed (Keccak.keccak256 "A seed phrase example".toUTF8.toList)) FUEL 0).map (·.1) =
      some 0x20df38f3f00496f19fe7c6535492543b21798ed7cb91aebe4af8012db884eda3 := by
  rw [C14_reference_digest_phrase, C14_reference_seed_phrase_from_digest]
  rfl

/-! ### `Fr::rand` -/

/-- every value produced by `Fr::rand` is a canonical field element, and the stream index advances -/
theorem C14_frRand_canonical (key : Array UInt32) (fuel k v k' : Nat) :
    frRand key fuel k = some (v, k') → v < P ∧ k < k' ∧ (k' - k) % 4 = 0 := by
  induction fuel generalizing k with
  | zero => intro h; simp [frRand] at h
  | succ fuel ih =>
    intro h
    simp only [frRand] at h
    split at h
    · simp only [Option.some.injEq, Prod.mk.injEq] at h
      obtain ⟨hv, hk⟩ := h
      subst hv; subst hk
      clear ih
      rename_i hlt
      clear hlt
      exact ⟨Nat.mod_lt _ P_pos, by omega, by omega⟩
    · obtain ⟨h1, h2, h3⟩ := ih (k + 4) h
      rename_i hlt
      clear hlt ih h
      exact ⟨h1, by omega, by omega⟩

/-- non-vacuity: the hypothesis holds for the reference stream, without and with a rejection -/
example : 0x766ce6c7e7a01bdf5b3f257616f603918c30946fa23480f2859c597817e6716 < P ∧ 0 < 4 ∧ (4 - 0) % 4 = 0 :=
  C14_frRand_canonical _ _ _ _ _ C14_reference_seed_bytes_from_digest
example : 0x1f18714c7bc83b5bca9e89d404cf6f2f585bc4c0f7ed8b53742b7e2b298f50b4 < P ∧ 4 < 12 ∧ (12 - 4) % 4 = 0 :=
  C14_frRand_canonical _ _ _ _ _ C14_reference_second_draw_from_digest

/-! ### Kernel-friendly unfolding of the two key generators

`seededKeygen` matches on `frRand key FUEL 0` where `key` is a concrete array of symbolic words; any
definitional unfolding against a `match` makes the kernel evaluate ChaCha symbolically (matchers are
abbreviations, so they are unfolded before `seededKeygen` is).  The copies below abstract the
sampler; they have the same body and the same definitional height as the model definitions, so
`seededKeygen H seed = seededGen frRand H seed` is checked by unfolding both sides once and comparing
syntactically.  All case analysis is then done for an abstract sampler. -/

private abbrev Sampler := Array UInt32 → Nat → Nat → Option (Nat × Nat)

private def seededGen (frR : Sampler) (H : List Nat → Nat) (seed : List UInt8) : Option (Nat × Nat) :=
  (fun (_ : Sampler) =>
    have key : Array UInt32 := ChaCha.keyOfSeed (Keccak.keccak256 seed)
    seededKeygen.match_1 (fun _ => Option (Nat × Nat)) (frR key FUEL 0)
      (fun s _ => some (s, H [s])) fun _ => none)
  frRand

private def extendedGen (frR : Sampler) (H : List Nat → Nat) (seed : List UInt8) :
    Option (Nat × Nat × Nat × Nat) :=
  (fun (_ : Sampler) =>
    have key : Array UInt32 := ChaCha.keyOfSeed (Keccak.keccak256 seed)
    extendedSeededKeygen.match_1 (fun _ => Option (Nat × Nat × Nat × Nat)) (frR key FUEL 0) (fun _ => none)
      fun t k =>
        extendedSeededKeygen.match_1 (fun _ => Option (Nat × Nat × Nat × Nat)) (frR key FUEL k) (fun _ => none)
          fun n _ =>
            have s : Nat := H [t, n]
            some (t, n, s, H [s]))
  frRand

private theorem seededKeygen_eq_gen (H : List Nat → Nat) (seed : List UInt8) :
    seededKeygen H seed = seededGen frRand H seed := rfl

private theorem extendedSeededKeygen_eq_gen (H : List Nat → Nat) (seed : List UInt8) :
    extendedSeededKeygen H seed = extendedGen frRand H seed := rfl

private theorem seededGen_some (f : Sampler) (H : List Nat → Nat) (seed : List UInt8) (s c : Nat)
    (h : seededGen f H seed = some (s, c)) :
    ∃ k, f (ChaCha.keyOfSeed (Keccak.keccak256 seed)) FUEL 0 = some (s, k) ∧ c = H [s] := by
  unfold seededGen at h
  dsimp only at h
  generalize f (ChaCha.keyOfSeed (Keccak.keccak256 seed)) FUEL 0 = r at h ⊢
  cases r with
  | none => cases h
  | some p =>
    obtain ⟨s0, k0⟩ := p
    cases h
    exact ⟨k0, rfl, rfl⟩

private theorem seededGen_of (f : Sampler) (H : List Nat → Nat) (seed : List UInt8) (s k : Nat)
    (hr : f (ChaCha.keyOfSeed (Keccak.keccak256 seed)) FUEL 0 = some (s, k)) :
    seededGen f H seed = some (s, H [s]) := by
  unfold seededGen
  dsimp only
  rw [hr]

private theorem extendedGen_some (f : Sampler) (H : List Nat → Nat) (seed : List UInt8) (t n s c : Nat)
    (h : extendedGen f H seed = some (t, n, s, c)) :
    ∃ k k', f (ChaCha.keyOfSeed (Keccak.keccak256 seed)) FUEL 0 = some (t, k) ∧
      f (ChaCha.keyOfSeed (Keccak.keccak256 seed)) FUEL k = some (n, k') ∧ s = H [t, n] ∧ c = H [s] := by
  unfold extendedGen at h
  dsimp only at h
  generalize ChaCha.keyOfSeed (Keccak.keccak256 seed) = key at h ⊢
  generalize hr : f key FUEL 0 = r at h
  cases r with
  | none => cases h
  | some p =>
    obtain ⟨t0, k0⟩ := p
    dsimp only at h
    generalize hr' : f key FUEL k0 = r' at h
    cases r' with
    | none => cases h
    | some p' =>
      obtain ⟨n0, k1⟩ := p'
      cases h
      exact ⟨k0, k1, rfl, hr', rfl, rfl⟩

private theorem extendedGen_of (f : Sampler) (H : List Nat → Nat) (seed : List UInt8) (t k n k' : Nat)
    (hr : f (ChaCha.keyOfSeed (Keccak.keccak256 seed)) FUEL 0 = some (t, k))
    (hr' : f (ChaCha.keyOfSeed (Keccak.keccak256 seed)) FUEL k = some (n, k')) :
    extendedGen f H seed = some (t, n, H [t, n], H [H [t, n]]) := by
  unfold extendedGen
  dsimp only
  rw [hr]
  dsimp only
  rw [hr']

/-! ### Identities -/

/-- seeded identities satisfy the commitment relation on canonical elements -/
theorem C14_seeded_identity_valid (H : List Nat → Nat) (seed : List UInt8) (s c : Nat) :
    seededKeygen H seed = some (s, c) → ValidIdentity H s c := by
  intro h
  obtain ⟨k, hr, hc⟩ := seededGen_some frRand H seed s c ((seededKeygen_eq_gen H seed).symm.trans h)
  exact ⟨(C14_frRand_canonical _ _ _ _ _ hr).1, hc⟩

/-- the reference seed does produce an identity, for every hash -/
private theorem seeded_ref (H : List Nat → Nat) :
    seededKeygen H [0,1,2,3,4,5,6,7,8,9] =
      some (0x766ce6c7e7a01bdf5b3f257616f603918c30946fa23480f2859c597817e6716,
            H [0x766ce6c7e7a01bdf5b3f257616f603918c30946fa23480f2859c597817e6716]) := by
  rw [seededKeygen_eq_gen]
  refine seededGen_of frRand H _ _ 4 ?_
  rw [C14_reference_digest_bytes]
  exact C14_reference_seed_bytes_from_digest

/-- non-vacuity: the hypothesis is satisfiable (reference seed, arbitrary hash) -/
example (H : List Nat → Nat) :
    ValidIdentity H 0x766ce6c7e7a01bdf5b3f257616f603918c30946fa23480f2859c597817e6716
      (H [0x766ce6c7e7a01bdf5b3f257616f603918c30946fa23480f2859c597817e6716]) :=
  C14_seeded_identity_valid H _ _ _ (seeded_ref H)

theorem C14_extended_seeded_identity_valid (H : List Nat → Nat) (seed : List UInt8) (t n s c : Nat) :
    extendedSeededKeygen H seed = some (t, n, s, c) → ValidExtendedIdentity H t n s c := by
  intro h
  obtain ⟨k, k', hr, hr', hs, hc⟩ :=
    extendedGen_some frRand H seed t n s c ((extendedSeededKeygen_eq_gen H seed).symm.trans h)
  exact ⟨(C14_frRand_canonical _ _ _ _ _ hr).1, (C14_frRand_canonical _ _ _ _ _ hr').1, hs, hc⟩

private theorem extended_ref (H : List Nat → Nat) :
    extendedSeededKeygen H [0,1,2,3,4,5,6,7,8,9] =
      some (0x766ce6c7e7a01bdf5b3f257616f603918c30946fa23480f2859c597817e6716,
            0x1f18714c7bc83b5bca9e89d404cf6f2f585bc4c0f7ed8b53742b7e2b298f50b4,
            H [0x766ce6c7e7a01bdf5b3f257616f603918c30946fa23480f2859c597817e6716,
               0x1f18714c7bc83b5bca9e89d404cf6f2f585bc4c0f7ed8b53742b7e2b298f50b4],
            H [H [0x766ce6c7e7a01bdf5b3f257616f603918c30946fa23480f2859c597817e6716,
                  0x1f18714c7bc83b5bca9e89d404cf6f2f585bc4c0f7ed8b53742b7e2b298f50b4]]) := by
  rw [extendedSeededKeygen_eq_gen]
  refine extendedGen_of frRand H _ _ 4 _ 12 ?_ ?_
  · rw [C14_reference_digest_bytes]
    exact C14_reference_seed_bytes_from_digest
  · rw [C14_reference_digest_bytes]
    exact C14_reference_second_draw_from_digest

/-- non-vacuity: the reference seed gives an extended identity (trapdoor, nullifier as in
    `rln/tests/protocol.rs`), for every hash -/
example (H : List Nat → Nat) :
    ValidExtendedIdentity H 0x766ce6c7e7a01bdf5b3f257616f603918c30946fa23480f2859c597817e6716
      0x1f18714c7bc83b5bca9e89d404cf6f2f585bc4c0f7ed8b53742b7e2b298f50b4
      (H [0x766ce6c7e7a01bdf5b3f257616f603918c30946fa23480f2859c597817e6716,
          0x1f18714c7bc83b5bca9e89d404cf6f2f585bc4c0f7ed8b53742b7e2b298f50b4])
      (H [H [0x766ce6c7e7a01bdf5b3f257616f603918c30946fa23480f2859c597817e6716,
             0x1f18714c7bc83b5bca9e89d404cf6f2f585bc4c0f7ed8b53742b7e2b298f50b4]]) :=
  C14_extended_seeded_identity_valid H _ _ _ _ _ (extended_ref H)

/-- the extended identity's trapdoor is the plain seeded identity's secret (same stream prefix) -/
theorem C14_extended_shares_first_draw (H : List Nat → Nat) (seed : List UInt8) (t n s c s' c' : Nat) :
    extendedSeededKeygen H seed = some (t, n, s, c) → seededKeygen H seed = some (s', c') → t = s' := by
  intro h h'
  obtain ⟨k, k', hr, -, -, -⟩ :=
    extendedGen_some frRand H seed t n s c ((extendedSeededKeygen_eq_gen H seed).symm.trans h)
  obtain ⟨k2, hr2, -⟩ := seededGen_some frRand H seed s' c' ((seededKeygen_eq_gen H seed).symm.trans h')
  have := hr.symm.trans hr2
  simp only [Option.some.injEq, Prod.mk.injEq] at this
  exact this.1

/-- non-vacuity: both hypotheses hold together on the reference seed -/
example (H : List Nat → Nat) :
    (0x766ce6c7e7a01bdf5b3f257616f603918c30946fa23480f2859c597817e6716 : Nat) =
      0x766ce6c7e7a01bdf5b3f257616f603918c30946fa23480f2859c597817e6716 :=
  C14_extended_shares_first_draw H _ _ _ _ _ _ _ (extended_ref H) (seeded_ref H)

/-! ### Encoding and the Montgomery constant -/

/-- canonical components encode to 32 bytes that decode back (one encoding per identity) -/
theorem C14_identity_encoding (v : Nat) (hv : v < P) : (natLE 32 v).length = 32 ∧ leNat (natLE 32 v) = v :=
  ⟨natLE_length 32 v, leNat_natLE 32 v (Nat.lt_trans hv P_lt)⟩

/-- non-vacuity: the reference secret round-trips; a bound is needed (`2^256 + 1` does not) -/
example : leNat (natLE 32 0x766ce6c7e7a01bdf5b3f257616f603918c30946fa23480f2859c597817e6716) =
    0x766ce6c7e7a01bdf5b3f257616f603918c30946fa23480f2859c597817e6716 :=
  (C14_identity_encoding _ (C14_frRand_canonical _ _ _ _ _ C14_reference_seed_bytes_from_digest).1).2
example : leNat (natLE 32 (2 ^ 256 + 1)) ≠ 2 ^ 256 + 1 := by decide +kernel

/-- Montgomery radix inverse is what it claims to be -/
theorem C14_rInv_spec : (2 ^ 256 % P) * rInv % P = 1 := by decide +kernel

end Zk
