import ZkProofs.Lemmas.TreeRun
import ZkProofs.Lemmas.PmRun
import ZkProofs.Lemmas.PmProofs
/-!
# C15 on the persistent tree after a reopen: the open finding C15-pm-reopen as theorems

The adapter's per-position flag vector (`cached_leaves_indices`) lives in memory only: `Pm.load`
(pmtree `MerkleTree::load` + adapter `PmTree::new`) recreates it as all zeros, while the leaves, the
root and the high-water mark come back from the store. After a reopen every position below the
high-water mark is therefore reported as empty. Kernel-checked at a concrete history (node type
`Nat`, a toy two-to-one function, default leaf `0`, association lists, depth 3), and from it the
negation of "for every history the reopened tree's empty-leaf list is the specification's"
(`C15_pm_empties` is that statement for the tree that was *not* reopened).
-/
namespace Zk

open Tree

/-- a toy two-to-one function on `Nat` -/
def C15Pm.exH : Nat → Nat → Nat := fun a b => 1000 * a + b + 7
abbrev C15Pm.ExD := AList PmKey (PmVal Nat)
abbrev C15Pm.ExS := AList (Nat × Nat) Nat

/-- positions 1 and 2 written, position 0 never written -/
def C15Pm.ops : List (TreeOp Nat) := [.set 1 5, .set 2 6]

/-- the persistent tree after a history -/
abbrev C15Pm.pm (d : Nat) (ops : List (TreeOp Nat)) : Tree.Pm Nat C15Pm.ExD :=
  Tree.Pm.run (D := C15Pm.ExD) C15Pm.ExS C15Pm.exH 0 d ops

/-- close and reopen: a new tree object loaded from the key–value content the history left behind -/
abbrev C15Pm.reopen (d : Nat) (ops : List (TreeOp Nat)) : Tree.Pm Nat C15Pm.ExD :=
  Tree.Pm.load C15Pm.exH 0 d { kv := (C15Pm.pm d ops).db.kv }

theorem C15Pm.ops_covered : Tree.PmCovered C15Pm.ops := by
  intro op h
  simp only [C15Pm.ops, List.mem_cons, List.not_mem_nil, or_false] at h
  rcases h with h | h <;> subst h <;> trivial

/-- before the reopen the empty-leaf list is `[0]`, as in the specification; after the reopen the
    written positions 1 and 2 are reported as empty too -/
theorem C15_pm_reopen_loses_flags :
    (C15Pm.pm 3 C15Pm.ops).emptyIdx = [0] ∧
    (C15Pm.reopen 3 C15Pm.ops).emptyIdx = [0, 1, 2] ∧
    (Tree.Ideal.run 0 3 C15Pm.ops).emptyIdx = [0] := by
  decide +kernel

/-- everything else survives the reopen: depth, high-water mark, root and leaves -/
theorem C15_pm_reopen_keeps_leaves :
    (C15Pm.reopen 3 C15Pm.ops).depth = 3 ∧
    (C15Pm.reopen 3 C15Pm.ops).next = 3 ∧
    (C15Pm.reopen 3 C15Pm.ops).root = (C15Pm.pm 3 C15Pm.ops).root ∧
    (C15Pm.reopen 3 C15Pm.ops).root = (Tree.Ideal.run 0 3 C15Pm.ops).root C15Pm.exH 0 ∧
    (List.range 8).map (C15Pm.reopen 3 C15Pm.ops).get = [0, 5, 6, 0, 0, 0, 0, 0].map .ok ∧
    (List.range 8).map ((Tree.Ideal.run 0 3 C15Pm.ops).leaf 0) = [0, 5, 6, 0, 0, 0, 0, 0] := by
  decide +kernel

/-- "for every history (even restricted to the operations for which the backend refines the
    specification), the reopened tree's empty-leaf list is the specification's" is false -/
theorem C15_pm_reopen_statement_fails :
    ¬ (∀ d : Nat, 0 < d → ∀ ops : List (TreeOp Nat), Tree.PmCovered ops →
        (C15Pm.reopen d ops).emptyIdx = (Tree.Ideal.run 0 d ops).emptyIdx) := by
  intro hall
  have h := hall 3 (by decide) C15Pm.ops C15Pm.ops_covered
  rw [C15_pm_reopen_loses_flags.2.1, C15_pm_reopen_loses_flags.2.2] at h
  exact absurd h (by decide)

/-- … while the tree that was not reopened agrees with the specification on the same history
    (instance of the general theorem `Pm.run_rel` / `Pm.obs_eq`, cf. `C15_pm_empties`) -/
theorem C15_pm_no_reopen_agrees :
    (C15Pm.pm 3 C15Pm.ops).emptyIdx = (Tree.Ideal.run 0 3 C15Pm.ops).emptyIdx :=
  (Pm.obs_eq C15Pm.ExD C15Pm.exH 0 _ _
    (Pm.run_rel C15Pm.ExS C15Pm.exH 0 3 (by decide) C15Pm.ops C15Pm.ops_covered)).2.2.2.2.1

/-- the reopened tree is not related to the specification state by `Pm.Rel` (its flag component
    fails), although the tree before the reopen is -/
theorem C15_pm_reopen_not_rel :
    ¬ Tree.Pm.Rel C15Pm.exH 0 (C15Pm.reopen 3 C15Pm.ops) (Tree.Ideal.run 0 3 C15Pm.ops) := by
  intro hrel
  have h := (Pm.obs_eq C15Pm.ExD C15Pm.exH 0 _ _ hrel).2.2.2.2.1
  rw [C15_pm_reopen_loses_flags.2.1, C15_pm_reopen_loses_flags.2.2] at h
  exact absurd h (by decide)

end Zk
