import ZkProofs.Lemmas.OpsProofs
/-!
# C19 — the operators of the witness-graph evaluator against circom's semantics

`evalFr` (Montgomery evaluator, canonical operands `< P`) returns circom's value for every operator
except `Pow` (unimplemented) and shifts by a count above `p/2`; the integer evaluator `evalU` agrees
with it inside `IntCovered`. Outside these regions the negations are kernel-checked at concrete
witnesses (the open findings C19-shift-count-above-half, C19-montgomery-unimplemented,
C19-integer-evaluator).
-/
namespace Zk

open Zk.Graph

/-! ## regenerated constants and truth tables -/

theorem C19_consts : ConstsStmt := consts_ok

example : Zk.Generated.modulusM = some P ∧ Zk.Generated.halfM = some (P / 2) ∧ 2 * (P / 2) + 1 = P := by
  decide +kernel

theorem C19_signed_comparisons : SignedCmpStmt := signedCmp_ok

/-- `P - 1` is the signed `-1`, below `3`; `P / 2` is the largest positive, `P / 2 + 1` the smallest negative -/
example : 3 < P ∧ P - 1 < P ∧ P / 2 + 1 < P ∧
    signedCmp Zk.Generated.uLt (P - 1) 3 = some 1 ∧ signedCmp Zk.Generated.uGte (P - 1) 3 = some 0 ∧
    signedCmp Zk.Generated.uLt (P / 2 + 1) (P / 2) = some 1 ∧
    signedCmp Zk.Generated.uLte (P / 2) (P / 2) = some 1 := by
  decide +kernel

/-! ## limb-level helpers -/

theorem C19_shr_limbs : ShrLimbsStmt := shr_limbs

/-- a count that takes one word move and then the carry loop, and one that takes only word moves -/
example : 2 ^ 200 + 12345 < 2 ^ 256 ∧ 0 < 70 ∧ 70 < 254 ∧
    shrFr (2 ^ 200 + 12345) 70 = .ok (2 ^ 130) ∧ shrFr (2 ^ 255 + 1) 128 = .ok (2 ^ 127) ∧
    shrFr (2 ^ 255 + 2 ^ 253) 253 = .ok 5 := by
  decide +kernel

theorem C19_limbwise : LimbwiseStmt := limbwise_ok

example : 2 ^ 255 + 2 ^ 70 + 6 < 2 ^ 256 ∧ 2 ^ 255 + 3 < 2 ^ 256 ∧
    ofLimbs (List.zipWith Nat.land (toLimbs (2 ^ 255 + 2 ^ 70 + 6)) (toLimbs (2 ^ 255 + 3))) = 2 ^ 255 + 2 ∧
    ofLimbs (List.zipWith Nat.xor (toLimbs (2 ^ 255 + 2 ^ 70 + 6)) (toLimbs (2 ^ 255 + 3))) = 2 ^ 70 + 5 := by
  decide +kernel

/-! ## the Montgomery evaluator follows circom (outside the open findings) -/

theorem C19_evalFr_sem_partial : EvalFrSemStmt := evalFr_sem

/-- the hypotheses are satisfiable for a shift, at the boundary count `P / 2`, and for a non-shift
    operator with any second operand -/
example : (5 < P ∧ 3 < P ∧ FrCovered .Shl 3) ∧ (5 < P ∧ P / 2 < P ∧ FrCovered .Shr (P / 2)) ∧
    (5 < P ∧ P - 1 < P ∧ FrCovered .Sub (P - 1)) ∧
    evalFr .Shl 5 3 = .ok 40 ∧ evalFr .Sub 5 (P - 1) = .ok 6 := by
  unfold FrCovered
  decide +kernel

theorem C19_evalFr_no_panic : EvalFrNoPanicStmt := evalFr_no_panic

example : 3 < P ∧ P - 1 < P ∧ Op.Shl ≠ Op.Pow ∧ evalFr .Shl 3 (P - 1) = .ok 0 ∧
    evalFr .Div 3 0 = .ok 0 := by
  decide +kernel

theorem C19_uno : EvalFrUnoStmt := evalFrUno_sem

example : 5 < P ∧ evalFrUno .Neg 5 = .ok (P - 5) ∧ evalFrUno .Neg 0 = .ok 0 := by decide +kernel

theorem C19_tres : EvalFrTresStmt := evalFrTres_sem

example : 0 < P ∧ 7 < P ∧ 9 < P ∧ evalFrTres .TernCond 0 7 9 = .ok 9 ∧
    evalFrTres .TernCond 1 7 9 = .ok 7 := by decide +kernel

/-! ## the two evaluators agree (outside the open findings) -/

theorem C19_evaluators_agree_partial : EvalAgreeStmt := eval_agree

example : 5 < P ∧ P - 1 < P ∧ IntCovered .Sub 5 (P - 1) ∧ evalU .Sub 5 (P - 1) = .ok 6 := by
  unfold IntCovered; decide +kernel
example : P - 1 < P ∧ 253 < P ∧ IntCovered .Shr (P - 1) 253 ∧ evalU .Shr (P - 1) 253 = .ok 1 := by
  unfold IntCovered; decide +kernel
example : 5 < P ∧ 2 < P ∧ IntCovered .Bor 5 2 ∧ evalU .Bor 5 2 = .ok 7 := by
  unfold IntCovered; decide +kernel
example : 7 < P ∧ 2 < P ∧ IntCovered .Idiv 7 2 ∧ evalU .Idiv 7 2 = .ok 3 := by
  unfold IntCovered; decide +kernel

theorem C19_uno_agree : EvalAgreeUnoStmt := evalUno_agree

example : 5 < P ∧ evalUUno .Neg 5 = .ok (P - 5) := by decide +kernel

/-! ## negations at the open-finding witnesses -/

/-- circom: `3 << (p - 1)` is `3 >> 1 = 1`; the code returns `0` -/
theorem C19_shl_above_half_differs : evalFr .Shl 3 (P - 1) = .ok 0 ∧ Circom.sem .Shl 3 (P - 1) = 1 := by
  decide +kernel

/-- circom: `3 >> (p - 1)` is `3 << 1 = 6`; the code returns `0` -/
theorem C19_shr_above_half_differs : evalFr .Shr 3 (P - 1) = .ok 0 ∧ Circom.sem .Shr 3 (P - 1) = 6 := by
  decide +kernel

theorem C19_pow_unimplemented : evalFr .Pow 2 3 = .panic ∧ evalFrUno .Id 5 = .panic := by
  decide +kernel

theorem C19_int_shl_unreduced : ∃ v, evalU .Shl (P - 1) 2 = .ok v ∧ v ≥ P :=
  ⟨(P - 1) * 4 % 2 ^ 256, by decide +kernel, by decide +kernel⟩

theorem C19_int_bor_unreduced : evalU .Bor (P - 1) 1 = .ok P := by decide +kernel

theorem C19_int_div_zero_panics : evalU .Idiv 3 0 = .panic ∧ evalU .Mod 3 0 = .panic := by
  decide +kernel

end Zk
