import ZkProofs.C06
import ZkProofs.C06Pm
/-!
# C17 — the three tree backends cannot be told apart

On every history of single-leaf writes, appends and deletions started from the freshly constructed
tree, the flat tree (`Tree.Full`), the sparse tree (`Tree.Optimal`, every lawful node map `M`) and
the persistent tree (pmtree + adapter `Tree.Pm`, every lawful store map `D` and batch map `S`, no
storage failure injected) have the same root, the same high-water mark, answer every `get` alike and
return the same membership path for every index (`C17_all_backends_same_roots_and_paths`): each one
refines the ideal tree (C06), so all observables are the specification's. The common path of an
index below the capacity has one sibling per level and direction bits in {0,1} that spell the index,
least significant bit first — the `path_elements` / `identity_path_index` inputs of the circuit — and
recomputes the common root from the common leaf (`C17_paths_in_circuit_format`): a witness built
under one backend is the witness built under any other.

Generic in the node type `α`, the hash `H`, the default leaf `dflt`.
-/
namespace Zk

open Tree

variable {α : Type} [Inhabited α] (H : α → α → α) (dflt : α)
  (M : Type) [MapLike M (Nat × Nat) α] [LawfulMapLike M (Nat × Nat) α]
  (D : Type) [MapLike D PmKey (PmVal α)] [LawfulMapLike D PmKey (PmVal α)]
  (S : Type) [MapLike S (Nat × Nat) α] [LawfulMapLike S (Nat × Nat) α]

/-- histories the property quantifies over: single-leaf writes, appends, deletions -/
def SimpleHistory (ops : List (Tree.TreeOp α)) : Prop :=
  ∀ op ∈ ops, match op with | .set _ _ | .append _ | .delete _ => True | _ => False

omit [Inhabited α] in
theorem SimpleHistory.pmCovered {ops : List (Tree.TreeOp α)} (h : SimpleHistory ops) :
    Tree.PmCovered ops := by
  intro op hop
  have := h op hop
  cases op <;> first | trivial | exact this.elim

/-! ### concrete instance used by the non-vacuity examples -/

def C17.exH : Nat → Nat → Nat := fun a b => 1000 * a + b + 7
/-- depth 2: `set 9 1` is rejected everywhere, `delete 3` is above the high-water mark -/
def C17.exOps : List (TreeOp Nat) := [.set 1 5, .set 9 1, .append 3, .delete 3, .set 0 8, .delete 0, .append 6]
abbrev C17.ExM := AList (Nat × Nat) Nat
abbrev C17.ExD := AList PmKey (PmVal Nat)
abbrev C17.ExS := AList (Nat × Nat) Nat

theorem C17.exOps_simple : SimpleHistory C17.exOps := by
  intro op h
  simp only [C17.exOps, List.mem_cons, List.not_mem_nil, or_false] at h
  rcases h with h | h | h | h | h | h | h <;> subst h <;> trivial

theorem C17_all_backends_same_roots_and_paths (d : Nat) (hd : 0 < d) (ops : List (TreeOp α))
    (h : SimpleHistory ops) :
    let f := Tree.Full.run H dflt d ops
    let o := Tree.Optimal.run (M := M) H dflt d ops
    let p := Tree.Pm.run (D := D) S H dflt d ops
    f.root = o.root ∧ o.root = p.root ∧ f.next = p.next ∧
    (∀ i, f.get i = o.get i ∧ o.get i = p.get i) ∧
    (∀ i, f.proof i = o.proof i ∧ o.proof i = p.proof i) := by
  intro f o p
  obtain ⟨f1, f2, f3, _, _, f6⟩ := Full.obs_eq H dflt _ _ (C06_full_refines H dflt d ops)
  obtain ⟨o1, _, o3, _, _, o6⟩ := Optimal.obs_eq M H dflt _ _ (C06_optimal_refines H dflt M d hd ops)
  obtain ⟨p1, p2, p3, _, _, p6⟩ := Pm.obs_eq D H dflt _ _ (C06_pm_refines H dflt D S d hd ops h.pmCovered)
  refine ⟨f1.trans o1.symm, o1.trans p1.symm, f2.trans p2.symm, fun i => ⟨?_, ?_⟩, fun i => ⟨?_, ?_⟩⟩
  · exact (f3 i).trans (o3 i).symm
  · exact (o3 i).trans (p3 i).symm
  · exact (f6 i).trans (o6 i).symm
  · exact (o6 i).trans (p6 i).symm

example := C17_all_backends_same_roots_and_paths C17.exH 0 C17.ExM C17.ExD C17.ExS 2 (by decide)
  C17.exOps C17.exOps_simple
/-- what the examples compare: root, high-water mark, three reads (one out of range) -/
def C17.exGets : List (Outcome Nat) := [.ok 5, .ok 6, .err]
/-- … and three paths (one out of range) -/
def C17.exPaths : List (Outcome (List (Nat × Nat))) := [.ok [(5, 0), (3013, 0)], .ok [(3, 1), (12, 1)], .err]

example :
    (fun t : Tree.Full Nat => (t.root, t.next, [t.get 1, t.get 3, t.get 4]))
      (Tree.Full.run C17.exH 0 2 C17.exOps) = (15020, 4, C17.exGets) ∧
    (fun t : Tree.Full Nat => [t.proof 0, t.proof 3, t.proof 4])
      (Tree.Full.run C17.exH 0 2 C17.exOps) = C17.exPaths := by decide +kernel
example :
    (fun t : Tree.Optimal Nat C17.ExM => (t.root, t.next, [t.get 1, t.get 3, t.get 4]))
      (Tree.Optimal.run (M := C17.ExM) C17.exH 0 2 C17.exOps) = (15020, 4, C17.exGets) ∧
    (fun t : Tree.Optimal Nat C17.ExM => [t.proof 0, t.proof 3, t.proof 4])
      (Tree.Optimal.run (M := C17.ExM) C17.exH 0 2 C17.exOps) = C17.exPaths := by decide +kernel
example :
    (fun t : Tree.Pm Nat C17.ExD => (t.root, t.next, [t.get 1, t.get 3, t.get 4]))
      (Tree.Pm.run (D := C17.ExD) C17.ExS C17.exH 0 2 C17.exOps) = (15020, 4, C17.exGets) ∧
    (fun t : Tree.Pm Nat C17.ExD => [t.proof 0, t.proof 3, t.proof 4])
      (Tree.Pm.run (D := C17.ExD) C17.ExS C17.exH 0 2 C17.exOps) = C17.exPaths := by decide +kernel

/-- the common path is in the circuit's input format and opens the common root -/
theorem C17_paths_in_circuit_format (d : Nat) (hd : 0 < d) (ops : List (TreeOp α))
    (h : SimpleHistory ops) (i : Nat) (hi : i < 2 ^ d) :
    ∃ (leaf : α) (π : List (α × Nat)),
      (Tree.Full.run H dflt d ops).proof i = .ok π ∧
      (Tree.Optimal.run (M := M) H dflt d ops).proof i = .ok π ∧
      (Tree.Pm.run (D := D) S H dflt d ops).proof i = .ok π ∧
      (Tree.Full.run H dflt d ops).get i = .ok leaf ∧
      (Tree.Optimal.run (M := M) H dflt d ops).get i = .ok leaf ∧
      (Tree.Pm.run (D := D) S H dflt d ops).get i = .ok leaf ∧
      π.length = d ∧
      (∀ x ∈ π, x.2 = 0 ∨ x.2 = 1) ∧
      π.foldr (fun x acc => 2 * acc + x.2) 0 = i ∧
      Tree.Ideal.computeRoot H leaf π = (Tree.Full.run H dflt d ops).root ∧
      Tree.Ideal.computeRoot H leaf π = (Tree.Optimal.run (M := M) H dflt d ops).root ∧
      Tree.Ideal.computeRoot H leaf π = (Tree.Pm.run (D := D) S H dflt d ops).root := by
  obtain ⟨f1, _, f3, _, _, f6⟩ := Full.obs_eq H dflt _ _ (C06_full_refines H dflt d ops)
  obtain ⟨o1, _, o3, _, _, o6⟩ := Optimal.obs_eq M H dflt _ _ (C06_optimal_refines H dflt M d hd ops)
  obtain ⟨p1, _, p3, _, _, p6⟩ := Pm.obs_eq D H dflt _ _ (C06_pm_refines H dflt D S d hd ops h.pmCovered)
  have hi' : i < 2 ^ (Tree.Ideal.run dflt d ops).depth := by rw [Ideal.run_depth]; exact hi
  obtain ⟨hlen, hdec, hbits, hcr⟩ := Ideal.proof_complete H dflt (Tree.Ideal.run dflt d ops) i hi'
  rw [Ideal.run_depth] at hlen
  refine ⟨(Tree.Ideal.run dflt d ops).leaf dflt i, (Tree.Ideal.run dflt d ops).proof H dflt i,
    ?_, ?_, ?_, ?_, ?_, ?_, hlen, hbits, hdec, hcr.trans f1.symm, hcr.trans o1.symm, hcr.trans p1.symm⟩
  · rw [f6, if_pos hi']
  · rw [o6, if_pos hi']
  · rw [p6, if_pos hi']
  · rw [f3, if_pos hi']
  · rw [o3, if_pos hi']
  · rw [p3, if_pos hi']

example := C17_paths_in_circuit_format C17.exH 0 C17.ExM C17.ExD C17.ExS 2 (by decide)
  C17.exOps C17.exOps_simple 3 (by decide)
/-- index 3 = bits [1, 1]; the path of the persistent backend opens the flat backend's root -/
example : (Tree.Pm.run (D := C17.ExD) C17.ExS C17.exH 0 2 C17.exOps).proof 3 = .ok [(3, 1), (12, 1)] ∧
    Tree.Ideal.computeRoot C17.exH 6 [(3, 1), (12, 1)] = (Tree.Full.run C17.exH 0 2 C17.exOps).root ∧
    [(3, 1), (12, 1)].foldr (fun (x : Nat × Nat) acc => 2 * acc + x.2) 0 = 3 := by decide +kernel

end Zk
