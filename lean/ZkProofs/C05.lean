import ZkProofs.Lemmas.GraphProofs
/-!
# C05 — the bundled witness graph (evaluator half)

The graph bundled with zerokit (`graph.bin`, regenerated into `ZkModel/Generated/BundledGraph.lean`
on every run) is well formed, declares the seven named inputs on a 46-cell buffer, and the
evaluator returns on *every* assignment a complete witness of 5844 canonical values — no crash, no
dependence on the order in which the named inputs are supplied.
-/
namespace Zk

open Zk.Graph Zk.Generated.Bundled

theorem C05_bundled_graph_wellformed : BundledWfStmt := bundled_wf

/-- the generated data is not trivial: 23 414 nodes whose first input node is node 957 (witness
    position 0), last node an addition feeding witness position 3 -/
example : nodes[signals[0]!]? = some (.input 0) ∧ signals[0]! = 957 ∧ signals[3]! = 23413 ∧
    c0.length = 400 ∧ c0[0]? = some (.montConstant 5433650512959517612316327474713065966758808864213826738576266661723522780033) := by
  decide +kernel

theorem C05_evaluator_total_deterministic_order_independent : BundledTotalStmt := bundled_total

/-- an assignment exists (all values 1, path vectors of twenty 1s), and so does a reordering of it -/
private def asg : List (String × List Nat) :=
  [("externalNullifier", [1]), ("identityPathIndex", List.replicate 20 1), ("identitySecret", [1]), ("messageId", [1]),
   ("pathElements", List.replicate 20 1), ("userMessageLimit", [1]), ("x", [1])]

example : Assignment asg ∧ (("identityPathIndex", List.replicate 20 1) :: ("externalNullifier", [1]) :: asg.drop 2).Perm asg := by
  refine ⟨⟨List.Perm.refl _, ?_, ?_, ?_⟩, List.Perm.swap _ _ _⟩
  · decide
  · decide
  · decide +kernel

end Zk
