import ZkProofs.Lemmas.ProtoProofs
import ZkProofs.Lemmas.IdealProofs
/-!
# C01 — a request for a registered identity inside the circuit's range proves and verifies

Given the prover contract `Complete` (Groth16 completeness for the circuit relation with the public
values of C04/C05, and its own 128-byte codec), `generate_rln_proof` on the request built by
`prepare_prove_input` for an identity whose membership path recomputes `root` returns a 288-byte
message that `verify`, `verify_rln_proof` (against `root`), and `verify_with_roots` (against
`[root]` and against the empty root set) all accept. With the tree specification of C07 the path
hypotheses hold for every position of the tree that stores the rate commitment.
-/
namespace Zk
open Zk.Codec Zk.Protocol Zk.Public Zk.Proto

theorem C01_prove_then_verify :
    ∀ {Pr : Type} (Z : Snark Pr) (Pv : Prover Pr) (H : List Nat → Nat) (h2f : List UInt8 → Nat) (depth : Nat)
    (treeProof : Nat → Outcome (List (Nat × Nat))) (root : Nat)
    (s i lim m e : Nat) (signal : List UInt8) (π : List (Nat × Nat)),
    Complete Z Pv H depth → (∀ l, H l < P) → (∀ b, h2f b < P) →
    s < P → lim < P → e < P → i < 2 ^ 64 → signal.length < 2 ^ 64 →
    m < lim → m < 2 ^ 16 → lim ≤ m + 2 ^ 16 →
    treeProof i = .ok π → π.length = depth → (∀ x ∈ π, x.2 = 0 ∨ x.2 = 1) →
    Tree.Ideal.computeRoot (fun a b => H [a, b]) (H [H [s], lim]) π = root →
    ∃ msg, generateRlnProof Z Pv H h2f depth treeProof (prepareProveInput s i lim m e signal) = .ok msg ∧
      msg.length = 288 ∧
      verify Z msg = .ok true ∧
      verifyRlnProof Z h2f root (prepareVerifyInput msg signal) = .ok true ∧
      verifyWithRoots Z h2f (prepareVerifyInput msg signal) (frToBytesLe root) = .ok true ∧
      verifyWithRoots Z h2f (prepareVerifyInput msg signal) [] = .ok true :=
  prove_then_verify

/-- on the tree specification: every position of the ideal tree that holds the rate commitment
    `H(H(s), limit)` gives a request that proves and verifies against the tree's root (the
    membership hypotheses are `Ideal.proof_complete`, C07) -/
theorem C01_registered_identity_proves_and_verifies :
    ∀ {Pr : Type} (Z : Snark Pr) (Pv : Prover Pr) (H : List Nat → Nat) (h2f : List UInt8 → Nat)
    (t : Tree.Ideal Nat) (dflt : Nat) (s i lim m e : Nat) (signal : List UInt8),
    Complete Z Pv H t.depth → (∀ l, H l < P) → (∀ b, h2f b < P) →
    s < P → lim < P → e < P → i < 2 ^ 64 → signal.length < 2 ^ 64 →
    m < lim → m < 2 ^ 16 → lim ≤ m + 2 ^ 16 →
    i < 2 ^ t.depth → t.leaf dflt i = H [H [s], lim] →
    ∃ msg, generateRlnProof Z Pv H h2f t.depth
        (fun j => if j < 2 ^ t.depth then .ok (t.proof (fun a b => H [a, b]) dflt j) else .err)
        (prepareProveInput s i lim m e signal) = .ok msg ∧
      msg.length = 288 ∧
      verify Z msg = .ok true ∧
      verifyRlnProof Z h2f (t.root (fun a b => H [a, b]) dflt) (prepareVerifyInput msg signal) = .ok true ∧
      verifyWithRoots Z h2f (prepareVerifyInput msg signal) (frToBytesLe (t.root (fun a b => H [a, b]) dflt))
        = .ok true ∧
      verifyWithRoots Z h2f (prepareVerifyInput msg signal) [] = .ok true := by
  intro Pr Z Pv H h2f t dflt s i lim m e signal hC hH hh2f hs hlim he hi hsig hml hm16 hlm hit hleaf
  obtain ⟨hlen, _, hbits, hroot⟩ := Tree.Ideal.proof_complete (fun a b => H [a, b]) dflt t i hit
  rw [hleaf] at hroot
  exact prove_then_verify Z Pv H h2f t.depth _ _ s i lim m e signal _ hC hH hh2f hs hlim he hi hsig hml hm16 hlm
    (if_pos hit) hlen hbits hroot

/-! ## non-vacuity: the hypotheses have a model -/

def C01.exH : List Nat → Nat := fun l => l.foldl (fun acc v => 1000 * acc + v + 7) 1 % 1000003
theorem C01.exH_lt : ∀ l, C01.exH l < P := fun _ => Nat.lt_trans (Nat.mod_lt _ (by decide)) (by decide)
def C01.exh2f : List UInt8 → Nat := fun b => b.length % 1000
theorem C01.exh2f_lt : ∀ b, C01.exh2f b < P := fun _ => Nat.lt_trans (Nat.mod_lt _ (by decide)) (by decide)
/-- a prover contract that always succeeds with the one proof there is -/
def C01.exZ : Snark Unit := { decode := fun _ => some (), verify := fun _ _ => some true,
                              encode := fun _ => List.replicate 128 0 }
def C01.exPv : Prover Unit := ⟨fun _ => some ()⟩
theorem C01.exComplete (depth : Nat) : Complete C01.exZ C01.exPv C01.exH depth :=
  ⟨fun _ _ => ⟨(), rfl, rfl⟩, fun _ => ⟨by simp [C01.exZ], rfl⟩⟩
/-- depth 2, the rate commitment of secret 5 / limit 10 at position 1 -/
def C01.exT : Tree.Ideal Nat := (Tree.Ideal.new 2).write 1 (C01.exH [C01.exH [5], 10])

example := C01_registered_identity_proves_and_verifies C01.exZ C01.exPv C01.exH C01.exh2f C01.exT 0
  5 1 10 2 9 [1, 2, 3] (C01.exComplete 2) C01.exH_lt C01.exh2f_lt (by decide) (by decide) (by decide)
  (by decide) (by decide) (by decide) (by decide) (by decide) (by decide) (by decide)

end Zk
