import ZkProofs.Lemmas.TreeRun
import ZkProofs.Lemmas.PmRun
import ZkProofs.Lemmas.PmProofs
import ZkProofs.Lemmas.IdealProofs
/-!
# C06 / C07 / C15 for the persistent tree (pmtree + adapter), no storage failure injected

For every history of `set / delete / append / setRange / batch with an empty removal list / reset`
(`PmCovered`), started from `Pm.new` on an empty store, the persistent backend is related to the
ideal tree run on the same calls; its observables, membership proofs and empty-leaf list are the
specification's. `Pm.step` is the state a call leaves behind whatever it returned (pmtree answers a
`delete` at or above the high-water mark with `Err`, the specification treats it as a no-op: the
states agree either way; the adapter accepts the empty `set_range` unconditionally: no change on
either side).

Not covered: `override_range` with a non-empty removal list (open finding C08-pm-batch).
Generic in the node type `α`, the hash `H`, the default leaf `dflt`, every lawful store map `D` and
every lawful batch map `S`.
-/
namespace Zk

open Tree

variable {α : Type} [Inhabited α] (H : α → α → α) (dflt : α)
  (D : Type) [MapLike D PmKey (PmVal α)] [LawfulMapLike D PmKey (PmVal α)]
  (S : Type) [MapLike S (Nat × Nat) α] [LawfulMapLike S (Nat × Nat) α]

/-- a toy two-to-one function on `Nat` -/
def C06Pm.exH : Nat → Nat → Nat := fun a b => 1000 * a + b + 7
/-- depth 2: `set 9 1` rejected, `delete 3` answered `Err` (above the high-water mark), the empty
    range at 7 accepted as a no-op, a batch without removals -/
def C06Pm.exOps : List (TreeOp Nat) :=
  [.set 1 5, .set 9 1, .append 3, .delete 3, .setRange 7 [], .batch 2 [6, 4] [], .delete 2]
abbrev C06Pm.ExD := AList PmKey (PmVal Nat)
abbrev C06Pm.ExS := AList (Nat × Nat) Nat

theorem C06Pm.exOps_covered : Tree.PmCovered C06Pm.exOps := by
  intro op h
  simp only [C06Pm.exOps, List.mem_cons, List.not_mem_nil, or_false] at h
  rcases h with h | h | h | h | h | h | h <;> subst h <;> first | trivial | rfl

theorem C06_pm_refines : ∀ d : Nat, 0 < d → ∀ ops : List (TreeOp α), Tree.PmCovered ops →
    Tree.Pm.Rel H dflt (Tree.Pm.run (D := D) S H dflt d ops) (Tree.Ideal.run dflt d ops) :=
  fun d hd ops hc => Pm.run_rel S H dflt d hd ops hc

example := C06_pm_refines C06Pm.exH 0 C06Pm.ExD C06Pm.ExS 2 (by decide) C06Pm.exOps C06Pm.exOps_covered
example : (Tree.Pm.run (D := C06Pm.ExD) C06Pm.ExS C06Pm.exH 0 2 C06Pm.exOps).root = 12018 ∧
    (Tree.Ideal.run 0 2 C06Pm.exOps).root C06Pm.exH 0 = 12018 := by decide +kernel

theorem C06_pm_observables : ∀ d : Nat, 0 < d → ∀ ops : List (TreeOp α), Tree.PmCovered ops →
    (Tree.Pm.run (D := D) S H dflt d ops).root = (Tree.Ideal.run dflt d ops).root H dflt ∧
    (Tree.Pm.run (D := D) S H dflt d ops).next = (Tree.Ideal.run dflt d ops).next ∧
    (∀ i, (Tree.Pm.run (D := D) S H dflt d ops).get i =
      if i < 2 ^ d then .ok ((Tree.Ideal.run dflt d ops).leaf dflt i) else .err) ∧
    (∀ l i, (Tree.Pm.run (D := D) S H dflt d ops).getSubtreeRoot l i =
      if l > d ∨ i ≥ 2 ^ d then .err
      else .ok ((Tree.Ideal.run dflt d ops).node H dflt l (i / 2 ^ (d - l)))) := by
  intro d hd ops hc
  have h := Pm.obs_eq D H dflt _ _ (C06_pm_refines H dflt D S d hd ops hc)
  rw [Ideal.run_depth] at h
  exact ⟨h.1, h.2.1, h.2.2.1, h.2.2.2.1⟩

example : (fun t : Tree.Pm Nat C06Pm.ExD => (t.next, [t.get 1, t.get 2, t.get 3, t.get 4, t.getSubtreeRoot 1 3]))
      (Tree.Pm.run (D := C06Pm.ExD) C06Pm.ExS C06Pm.exH 0 2 C06Pm.exOps) =
    (4, [.ok 5, .ok 0, .ok 4, .err, .ok 11]) := by decide +kernel

/-- C07 completeness on the persistent backend -/
theorem C07_pm_proof_complete [BEq α] [LawfulBEq α] :
    ∀ d : Nat, 0 < d → ∀ ops : List (TreeOp α), Tree.PmCovered ops → ∀ i : Nat, i < 2 ^ d →
    ∃ π, (Tree.Pm.run (D := D) S H dflt d ops).proof i = .ok π ∧
      (Tree.Pm.run (D := D) S H dflt d ops).get i = .ok ((Tree.Ideal.run dflt d ops).leaf dflt i) ∧
      π.length = d ∧
      π.foldr (fun x acc => 2 * acc + x.2) 0 = i ∧
      (∀ x ∈ π, x.2 = 0 ∨ x.2 = 1) ∧
      Tree.Pm.computeRootFrom H ((Tree.Ideal.run dflt d ops).leaf dflt i) π
        = (Tree.Pm.run (D := D) S H dflt d ops).root ∧
      Tree.Pm.verify H (Tree.Pm.run (D := D) S H dflt d ops)
        ((Tree.Ideal.run dflt d ops).leaf dflt i) π = .ok true := by
  intro d hd ops hc i hi
  have h := Pm.proof_complete_of_rel H dflt (Pm.run_rel (D := D) S H dflt d hd ops hc) i
    (by rw [Ideal.run_depth]; exact hi)
  rw [Ideal.run_depth] at h
  exact h

example := C07_pm_proof_complete C06Pm.exH 0 C06Pm.ExD C06Pm.ExS 2 (by decide) C06Pm.exOps
  C06Pm.exOps_covered 3 (by decide)
example : (fun t : Tree.Pm Nat C06Pm.ExD =>
      (t.proof 3, Tree.Pm.verify C06Pm.exH t 4 [(0, 1), (12, 1)], Tree.Pm.verify C06Pm.exH t 5 [(0, 1), (12, 1)]))
      (Tree.Pm.run (D := C06Pm.ExD) C06Pm.ExS C06Pm.exH 0 2 C06Pm.exOps) =
    (.ok [(0, 1), (12, 1)], .ok true, .err) := by decide +kernel

/-- C15 on the persistent backend -/
theorem C15_pm_empties : ∀ d : Nat, 0 < d → ∀ ops : List (TreeOp α), Tree.PmCovered ops →
    (Tree.Pm.run (D := D) S H dflt d ops).emptyIdx = (Tree.Ideal.run dflt d ops).emptyIdx :=
  fun d hd ops hc => (Pm.obs_eq D H dflt _ _ (C06_pm_refines H dflt D S d hd ops hc)).2.2.2.2.1

example : (Tree.Pm.run (D := C06Pm.ExD) C06Pm.ExS C06Pm.exH 0 2 C06Pm.exOps).emptyIdx = [0, 2] ∧
    (Tree.Ideal.run 0 2 C06Pm.exOps).emptyIdx = [0, 2] := by decide +kernel

end Zk
