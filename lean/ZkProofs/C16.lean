import ZkProofs.Lemmas.PmFaultProofs
/-!
# C16 — persistence of the pmtree backend and injected storage failures

The store is the finite map of `ZkModel/Tree/Pm.lean` with a failure schedule (hook H1 on
`SledDB::put / put_batch / close`). Proved, generically in the node type, the hash, the default leaf and
every lawful store / batch map:

* reopening shows the same tree (root, every node and leaf, high-water mark, depth), whatever depth the
  caller passes, and the reopened tree keeps the invariant of the refinement — **partial**: under the
  extra hypothesis that the root node `(0,0)` is in the store. `Pm.Rel` alone does not give that
  (`getElem` falls back to the default cache, `load` to the default *leaf*); it holds in every state of
  every history (`C16_history_root_stored`), so the history-level statement `C16_history_reopens` is
  unconditional;
* the default-node cache is the one `load` recomputes; metadata survives reopening;
* a storage failure inside an operation is reported (`Ok` means the armed write was not reached);
* whatever happens (success, rejection, failure injected anywhere) an operation leaves every leaf it does
  not address reading as before, and never touches the stored depth — **partial**: (i) the literal stored
  entry may change from absent to the value it already read as (`set_range` writes back the siblings
  it loaded), (ii) `remove_indices_and_set_leaves` writes beyond the addressed span
  (`Pm.overshoot`, open finding C08-pm-batch) and those positions are excluded;
* hence every acknowledged leaf outside the failed operation's positions is what a reopened tree reads
  — **partial** for the same overshoot reason.

The statements that are false as written are refuted below on concrete instances.
-/
namespace Zk

open Tree

variable {α : Type} [Inhabited α] (H : α → α → α) (dflt : α)
  (D : Type) [MapLike D PmKey (PmVal α)] [LawfulMapLike D PmKey (PmVal α)]
  (S : Type) [MapLike S (Nat × Nat) α] [LawfulMapLike S (Nat × Nat) α]

/-- a toy two-to-one function on `Nat` -/
def C16.exH : Nat → Nat → Nat := fun a b => 1000 * a + b + 7
abbrev C16.ExD := AList PmKey (PmVal Nat)
abbrev C16.ExS := AList (Nat × Nat) Nat
/-- depth 2 history -/
def C16.exOps : List (TreeOp Nat) :=
  [.set 1 5, .set 9 1, .append 3, .delete 3, .setRange 7 [], .batch 2 [6, 4] [], .delete 2]
/-- the tree after the history -/
def C16.exT : Tree.Pm Nat C16.ExD := Tree.Pm.run C16.ExS C16.exH 0 2 C16.exOps
/-- the same tree with the failure schedule armed at write number `f` -/
def C16.armed (t : Tree.Pm Nat C16.ExD) (f : Nat) : Tree.Pm Nat C16.ExD :=
  { t with db := { t.db with failAt := some f, calls := 0 } }
/-- what a tree reopened on the store of `t` reads at the leaf level -/
def C16.reopenLeaves (t : Tree.Pm Nat C16.ExD) (argDepth : Nat) : List Nat :=
  let t' := Tree.Pm.load C16.exH 0 argDepth { kv := t.db.kv }
  (List.range (2 ^ t'.depth)).map (t'.getElem t'.depth)

theorem C16.unarm_eq {α D : Type} (t : Tree.Pm α D) (h : t.db.failAt = none) :
    ({ t with db := { t.db with failAt := none } } : Tree.Pm α D) = t := by
  obtain ⟨⟨kv, calls, fa⟩, a, b, c, d, e, f⟩ := t
  cases h
  rfl

theorem C16.exOps_covered : Tree.PmCovered C16.exOps := by
  intro op h
  simp only [C16.exOps, List.mem_cons, List.not_mem_nil, or_false] at h
  rcases h with h | h | h | h | h | h | h <;> subst h <;> first | trivial | rfl

/-! ## (a) reopening -/

/-- `Pm.ReopenStmt` under the extra hypothesis that the root node is stored -/
theorem C16_reopen_shows_same_tree_partial :
    ∀ (t : Tree.Pm α D) (s : Tree.Ideal α) (argDepth : Nat), Tree.Pm.Rel H dflt t s →
      t.cache = (Tree.Pm.mkCache H dflt t.depth [dflt]).toArray →
      (∃ v, MapLike.get? t.db.kv (PmKey.node 0 0) = some (PmVal.fr v)) →
      Tree.Pm.Reopened H dflt (Tree.Pm.load H dflt argDepth { kv := t.db.kv }) s :=
  Pm.reopen_shows_ideal_partial D H dflt

/-- the statement as written is false: a related state whose store lacks the root node reloads with
    root `dflt` -/
example : ¬ Tree.Pm.ReopenStmt C16.ExD C16.exH 0 := by
  intro h
  let t : Tree.Pm Nat C16.ExD :=
    ⟨{ kv := MapLike.insert (MapLike.insert MapLike.empty PmKey.depthKey (.num 1)) PmKey.nextKey (.num 0) },
      1, 0, (Tree.Pm.mkCache C16.exH 0 1 [0]).toArray, 7, #[0, 0], []⟩
  have hrel : Tree.Pm.Rel C16.exH 0 t (Tree.Ideal.new 1) :=
    ⟨⟨by decide +kernel, by decide +kernel, by decide +kernel, by decide +kernel, rfl, by decide +kernel,
      fun l i hl hi => by
        have hl0 : l = 0 := by have : l < 1 := hl; omega
        subst hl0
        have hi0 : i = 0 := by have : i < 1 := hi; omega
        subst hi0
        decide +kernel,
      rfl, rfl⟩, rfl, rfl, by decide +kernel, by decide +kernel⟩
  have := (h t (Tree.Ideal.new 1) 1 hrel rfl).root
  revert this
  decide +kernel

/-- `Pm.ReopenInvStmt` under the extra hypothesis that the root node is stored -/
theorem C16_reopened_tree_keeps_invariant_partial :
    ∀ (t : Tree.Pm α D) (s : Tree.Ideal α), Tree.Pm.Rel H dflt t s →
      t.cache = (Tree.Pm.mkCache H dflt t.depth [dflt]).toArray →
      (∃ v, MapLike.get? t.db.kv (PmKey.node 0 0) = some (PmVal.fr v)) →
      Tree.Pm.Inv H (Tree.Pm.load H dflt t.depth { kv := t.db.kv }) :=
  Pm.reopen_inv_partial D H dflt

/-- the statement as written is false on the same state: the reloaded root is not the root node read -/
example : ¬ Tree.Pm.ReopenInvStmt C16.ExD C16.exH 0 := by
  intro h
  let t : Tree.Pm Nat C16.ExD :=
    ⟨{ kv := MapLike.insert (MapLike.insert MapLike.empty PmKey.depthKey (.num 1)) PmKey.nextKey (.num 0) },
      1, 0, (Tree.Pm.mkCache C16.exH 0 1 [0]).toArray, 7, #[0, 0], []⟩
  have hrel : Tree.Pm.Rel C16.exH 0 t (Tree.Ideal.new 1) :=
    ⟨⟨by decide +kernel, by decide +kernel, by decide +kernel, by decide +kernel, rfl, by decide +kernel,
      fun l i hl hi => by
        have hl0 : l = 0 := by have : l < 1 := hl; omega
        subst hl0
        have hi0 : i = 0 := by have : i < 1 := hi; omega
        subst hi0
        decide +kernel,
      rfl, rfl⟩, rfl, rfl, by decide +kernel, by decide +kernel⟩
  have := (h t (Tree.Ideal.new 1) hrel rfl).root_eq
  revert this
  decide +kernel

/-- the root node is stored, the depth is the creation depth and the default cache is the recomputable
    one in every state of every history -/
theorem C16_history_root_stored (d : Nat) (ops : List (TreeOp α)) :
    (Tree.Pm.run (D := D) S H dflt d ops).depth = d ∧
    (Tree.Pm.run (D := D) S H dflt d ops).cache = (Tree.Pm.mkCache H dflt d [dflt]).toArray ∧
    ∃ v, MapLike.get? (Tree.Pm.run (D := D) S H dflt d ops).db.kv (PmKey.node 0 0) = some (PmVal.fr v) :=
  Pm.run_hist S H dflt d ops

/-- after every covered history, reopening the store (with any depth argument) shows the ideal tree -/
theorem C16_history_reopens (d : Nat) (hd : 0 < d) (ops : List (TreeOp α)) (hc : Tree.PmCovered ops)
    (argDepth : Nat) :
    Tree.Pm.Reopened H dflt
      (Tree.Pm.load H dflt argDepth { kv := (Tree.Pm.run (D := D) S H dflt d ops).db.kv })
      (Tree.Ideal.run dflt d ops) := by
  obtain ⟨h1, h2, h3⟩ := Pm.run_hist (D := D) S H dflt d ops
  exact Pm.reopen_shows_ideal_partial D H dflt _ _ argDepth (Pm.run_rel S H dflt d hd ops hc)
    (by rw [h1]; exact h2) h3

/-- … and the reopened tree (same depth argument) satisfies the invariant again -/
theorem C16_history_reopened_invariant (d : Nat) (hd : 0 < d) (ops : List (TreeOp α))
    (hc : Tree.PmCovered ops) :
    Tree.Pm.Inv H (Tree.Pm.load H dflt d { kv := (Tree.Pm.run (D := D) S H dflt d ops).db.kv }) := by
  obtain ⟨h1, h2, h3⟩ := Pm.run_hist (D := D) S H dflt d ops
  have := Pm.reopen_inv_partial D H dflt _ _ (Pm.run_rel S H dflt d hd ops hc) (by rw [h1]; exact h2) h3
  rw [h1] at this
  exact this

example := C16_history_reopens C16.exH 0 C16.ExD C16.ExS 2 (by decide) C16.exOps C16.exOps_covered 7
example := C16_history_reopened_invariant C16.exH 0 C16.ExD C16.ExS 2 (by decide) C16.exOps C16.exOps_covered
/-- reopened with a wrong depth argument: depth, high-water mark, root and leaves are the specification's -/
example : (fun t' : Tree.Pm Nat C16.ExD => (t'.depth, t'.next, t'.root, t'.flags.size))
      (Tree.Pm.load C16.exH 0 7 { kv := C16.exT.db.kv }) = (2, 4, 12018, 128) ∧
    C16.reopenLeaves C16.exT 7 = [0, 5, 0, 4] ∧
    (Tree.Ideal.run 0 2 C16.exOps).root C16.exH 0 = 12018 ∧
    (List.range 4).map ((Tree.Ideal.run 0 2 C16.exOps).leaf 0) = [0, 5, 0, 4] := by decide +kernel

/-! ## cache and metadata -/

theorem C16_cache_is_recomputable : Tree.Pm.CacheStmt D S H dflt := Pm.cache_stable D S H dflt

example : C16.exT.cache = (Tree.Pm.mkCache C16.exH 0 2 [0]).toArray ∧ C16.exT.cache = #[7014, 7, 0] := by
  decide +kernel

theorem C16_metadata_survives_reopen : Tree.Pm.MetadataStmt D H dflt := Pm.metadata_survives D H dflt

example : (fun r : Tree.Pm Nat C16.ExD × Outcome Unit =>
      (r.2, Tree.Pm.getMetadata r.1, Tree.Pm.getMetadata (Tree.Pm.load C16.exH 0 2 { kv := r.1.db.kv })))
    (Tree.Pm.setMetadata [1, 2, 3] C16.exT) = (.ok (), [1, 2, 3], [1, 2, 3]) := by decide +kernel

/-! ## (b) failures are reported -/

theorem C16_storage_failure_is_reported : Tree.Pm.FailureReportedStmt D S H dflt :=
  Pm.failure_reported D S H dflt

/-- a `set` on a depth-2 tree performs four writes (leaf, two inner nodes, high-water mark): armed at
    write 2 it returns `Err` having consumed three writes; armed at write 4 it returns `Ok` with the
    armed write still ahead -/
example : (fun r : Tree.Pm Nat C16.ExD × Outcome Unit => (r.2, r.1.db.calls, r.1.db.failAt))
      (Tree.Pm.call C16.ExS C16.exH 0 (C16.armed C16.exT 2) (.op (.set 0 8))) = (.err, 3, some 2) ∧
    (fun r : Tree.Pm Nat C16.ExD × Outcome Unit => (r.2, r.1.db.calls, r.1.db.failAt))
      (Tree.Pm.call C16.ExS C16.exH 0 (C16.armed C16.exT 4) (.op (.set 0 8))) = (.ok (), 4, some 4) := by
  decide +kernel

/-! ## (c) what a failed operation leaves behind -/

/-- `Pm.LeafFrameStmt` corrected: the stored entry of an unaddressed leaf is untouched or rewritten
    with the value it already read as, so it reads the same; the stored depth is untouched; the
    positions `remove_indices_and_set_leaves` overshoots to are excluded -/
theorem C16_unaddressed_leaves_untouched_partial :
    ∀ (t : Tree.Pm α D) (c : PmCall α) (p : Nat), 0 < t.depth → ¬ addressed t c p →
      ¬ Tree.Pm.overshoot c p →
      let r := Tree.Pm.call S H dflt t c
      (MapLike.get? r.1.db.kv (PmKey.node t.depth p) = MapLike.get? t.db.kv (PmKey.node t.depth p) ∨
        MapLike.get? r.1.db.kv (PmKey.node t.depth p) = some (PmVal.fr (t.getElem t.depth p))) ∧
      r.1.getElem t.depth p = t.getElem t.depth p ∧
      MapLike.get? r.1.db.kv PmKey.depthKey = MapLike.get? t.db.kv PmKey.depthKey :=
  Pm.leaf_frame_partial D S H dflt

/-- the statement as written is false (1): on a fresh depth-2 tree `set_range(3, [5])` stores leaf 2
    (its sibling, read as the default) although the entry was absent -/
example : ¬ Tree.Pm.LeafFrameStmt C16.ExD C16.ExS C16.exH 0 := by
  intro h
  have := (h (Tree.Pm.new C16.exH 0 2 { kv := MapLike.empty }).1 (.op (.setRange 3 [5])) 2
    (by decide +kernel) (by simp [addressed])).1
  have := congrArg Option.isSome this
  revert this
  decide +kernel

/-- the statement as written is false (2), also at the level of what is read: on a depth-3 tree with leaf
    2 set, `override_range(4, [7], [1])` returns `Ok`, does not reset leaf 1, and writes leaves 5 and 7 -/
example : (fun r : Tree.Pm Nat C16.ExD × Outcome Unit => (r.2, (List.range 8).map (r.1.getElem 3)))
      (Tree.Pm.call C16.ExS C16.exH 0 (Tree.Pm.run C16.ExS C16.exH 0 3 [.set 2 9, .set 1 6])
        (.op (.batch 4 [7] [1]))) = (.ok (), [0, 6, 9, 0, 0, 9, 0, 7]) ∧
    ¬ addressed (Tree.Pm.run (D := C16.ExD) C16.ExS C16.exH 0 3 [.set 2 9, .set 1 6]) (.op (.batch 4 [7] [1])) 7 ∧
    Tree.Pm.overshoot (.op (.batch 4 [7] [1]) : PmCall Nat) 7 := by
  refine ⟨by decide +kernel, ?_, ?_⟩
  · simp [addressed]
  · refine ⟨by simp, by simp, by omega, ?_⟩
    decide +kernel

/-- a `set` at 0 armed at write 2 returns `Err`; the store then holds the new leaf 0 but the old root
    (the tree is torn), the stored depth is untouched and a reopened tree reads the old leaves 1, 2, 3 -/
example : (Tree.Pm.call C16.ExS C16.exH 0 (C16.armed C16.exT 2) (.op (.set 0 8))).2 = .err ∧
    C16.reopenLeaves C16.exT 2 = [0, 5, 0, 4] ∧
    C16.reopenLeaves (Tree.Pm.call C16.ExS C16.exH 0 (C16.armed C16.exT 2) (.op (.set 0 8))).1 2 = [8, 5, 0, 4] ∧
    (Tree.Pm.load C16.exH 0 2
      { kv := (Tree.Pm.call C16.ExS C16.exH 0 (C16.armed C16.exT 2) (.op (.set 0 8))).1.db.kv }).root = 12018 := by
  decide +kernel

/-- `Pm.AckedPreservedStmt` with the overshoot positions excluded -/
theorem C16_acknowledged_updates_survive_failed_operation_partial :
    ∀ (t : Tree.Pm α D) (s : Tree.Ideal α) (c : PmCall α) (f : Nat) (argDepth p : Nat),
      Tree.Pm.Rel H dflt { t with db := { t.db with failAt := none } } s →
      t.cache = (Tree.Pm.mkCache H dflt t.depth [dflt]).toArray →
      c ≠ .op .reset → p < 2 ^ t.depth → ¬ addressed t c p → ¬ Tree.Pm.overshoot c p →
      let t' := Tree.Pm.load H dflt argDepth
        { kv := (Tree.Pm.call S H dflt { t with db := { t.db with failAt := some f } } c).1.db.kv }
      t'.depth = s.depth ∧ t'.getElem t'.depth p = s.leaf dflt p :=
  Pm.acked_preserved_partial D S H dflt

/-- the statement as written is false: the overshoot of `override_range(4, [7], [1])` changes the
    acknowledged (default) leaf 7, which the call does not address -/
example : ¬ Tree.Pm.AckedPreservedStmt C16.ExD C16.ExS C16.exH 0 := by
  intro h
  have hrel := Pm.run_rel (D := C16.ExD) C16.ExS C16.exH 0 3 (by decide) [.set 2 9, .set 1 6]
    (by intro op hop
        simp only [List.mem_cons, List.not_mem_nil, or_false] at hop
        rcases hop with hop | hop <;> subst hop <;> trivial)
  generalize ht : Tree.Pm.run (D := C16.ExD) C16.ExS C16.exH 0 3 [.set 2 9, .set 1 6] = t at hrel
  have hrel' : Tree.Pm.Rel C16.exH 0 { t with db := { t.db with failAt := none } }
      (Tree.Ideal.run 0 3 [.set 2 9, .set 1 6]) := by
    rw [C16.unarm_eq t hrel.inv.nofail]; exact hrel
  have := (h t _ (.op (.batch 4 [7] [1])) 100 3 7 hrel'
    (by subst ht; decide +kernel) (by simp) (by subst ht; decide +kernel) (by simp [addressed])).2
  subst ht
  revert this
  decide +kernel

/-- a batch write armed at its first storage write fails as a whole; reopened, every leaf is the
    acknowledged one -/
example : (Tree.Pm.call C16.ExS C16.exH 0 (C16.armed C16.exT 0) (.op (.setRange 0 [1, 2, 3]))).2 = .err ∧
    C16.reopenLeaves (Tree.Pm.call C16.ExS C16.exH 0 (C16.armed C16.exT 0) (.op (.setRange 0 [1, 2, 3]))).1 5
      = [0, 5, 0, 4] := by
  decide +kernel

end Zk
