import ZkProofs.Lemmas.TreeRun
import ZkProofs.Lemmas.TreeRunLemmas
import ZkProofs.Lemmas.FullProofs
import ZkProofs.Lemmas.OptimalProofs
import ZkProofs.Lemmas.IdealProofs
/-!
# C08 — the batch update (`override_range`) on every reachable state

`Ideal.batch` is the documented behaviour: reset every removed position, then write the new leaves
at consecutive positions; reject (changing nothing) when the range or a removal is beyond capacity
or when there is nothing to do. On every state reachable by a history, `override_range` of the flat
and of the sparse tree yields a tree related to the ideal result, or rejects exactly when the
specification rejects; it never panics. `init_tree_with_leaves` is the batch on a fresh tree.

The persistent backend's `override_range` satisfies this only for an empty removal list (open
finding C08-pm-batch); see `C06Pm.lean`.
-/
namespace Zk

open Tree

variable {α : Type} [Inhabited α] (H : α → α → α) (dflt : α)

/-- a toy two-to-one function on `Nat` -/
def C08.exH : Nat → Nat → Nat := fun a b => 1000 * a + b + 7
def C08.exOps : List (TreeOp Nat) := [.set 1 5, .set 9 1, .append 3]
abbrev C08.ExM := AList (Nat × Nat) Nat

/-! ## FullMerkleTree -/

theorem C08_full_batch : ∀ (d : Nat) (ops : List (TreeOp α)) (start : Nat) (vs : List α) (rem : List Nat),
    Tree.RefinesOutcome (Tree.Full.Rel H dflt) (Tree.Full.run H dflt d ops) (Tree.Ideal.run dflt d ops)
      (Tree.Full.overrideRange H dflt (Tree.Full.run H dflt d ops) start vs rem)
      (Tree.Ideal.batch dflt (Tree.Ideal.run dflt d ops) start vs rem) :=
  fun d ops start vs rem => Full.batch_rel H dflt _ _ start vs rem (Full.run_rel H dflt d ops)

example := C08_full_batch C08.exH 0 2 C08.exOps 2 [7, 8] [1]
/-- accepted: positions 2, 3 written, position 1 reset -/
example : (Tree.Full.overrideRange C08.exH 0 (Tree.Full.run C08.exH 0 2 C08.exOps) 2 [7, 8] [1]).map
      (fun t => ([t.get 0, t.get 1, t.get 2, t.get 3], t.next, t.emptyIdx)) =
    .ok ([.ok 0, .ok 0, .ok 7, .ok 8], 4, [0, 1]) ∧
    (Tree.Ideal.batch 0 (Tree.Ideal.run 0 2 C08.exOps) 2 [7, 8] [1]).map
      (fun s => ([s.leaf 0 0, s.leaf 0 1, s.leaf 0 2, s.leaf 0 3], s.next, s.emptyIdx)) =
    .ok ([0, 0, 7, 8], 4, [0, 1]) := by decide
/-- rejected on both sides: does not fit / removal beyond capacity / nothing to do -/
example : (Tree.Full.overrideRange C08.exH 0 (Tree.Full.run C08.exH 0 2 C08.exOps) 3 [7, 8] []).isOk = false ∧
    (Tree.Ideal.batch 0 (Tree.Ideal.run 0 2 C08.exOps) 3 [7, 8] []).isOk = false ∧
    (Tree.Full.overrideRange C08.exH 0 (Tree.Full.run C08.exH 0 2 C08.exOps) 0 [7] [4]).isOk = false ∧
    (Tree.Ideal.batch 0 (Tree.Ideal.run 0 2 C08.exOps) 0 [7] [4]).isOk = false ∧
    (Tree.Full.overrideRange C08.exH 0 (Tree.Full.run C08.exH 0 2 C08.exOps) 0 [] []).isOk = false ∧
    (Tree.Ideal.batch 0 (Tree.Ideal.run 0 2 C08.exOps) 0 [] []).isOk = false := by decide

theorem C08_full_never_panics : ∀ (d : Nat) (ops : List (TreeOp α)) (start : Nat) (vs : List α) (rem : List Nat),
    Tree.Full.overrideRange H dflt (Tree.Full.run H dflt d ops) start vs rem ≠ .panic :=
  fun d ops start vs rem => (C08_full_batch H dflt d ops start vs rem).keep.2.2

example := C08_full_never_panics C08.exH 0 2 C08.exOps 0 [] []

/-! ## OptimalMerkleTree, for every lawful node map `M` -/

variable (M : Type) [MapLike M (Nat × Nat) α] [LawfulMapLike M (Nat × Nat) α]

theorem C08_optimal_batch : ∀ d : Nat, 0 < d →
    ∀ (ops : List (TreeOp α)) (start : Nat) (vs : List α) (rem : List Nat),
    Tree.RefinesOutcome (Tree.Optimal.Rel H dflt) (Tree.Optimal.run (M := M) H dflt d ops)
      (Tree.Ideal.run dflt d ops)
      (Tree.Optimal.overrideRange H dflt (Tree.Optimal.run (M := M) H dflt d ops) start vs rem)
      (Tree.Ideal.batch dflt (Tree.Ideal.run dflt d ops) start vs rem) :=
  fun d hd ops start vs rem =>
    Optimal.batch_rel M H dflt _ _ start vs rem (Optimal.run_rel M H dflt d hd ops)

example := C08_optimal_batch C08.exH 0 C08.ExM 2 (by decide) C08.exOps 2 [7, 8] [1]
example : (Tree.Optimal.overrideRange C08.exH 0
      (Tree.Optimal.run (M := C08.ExM) C08.exH 0 2 C08.exOps) 2 [7, 8] [1]).map
      (fun t => ([t.get 0, t.get 1, t.get 2, t.get 3], t.next, t.emptyIdx)) =
    .ok ([.ok 0, .ok 0, .ok 7, .ok 8], 4, [0, 1]) ∧
    (Tree.Optimal.overrideRange C08.exH 0
      (Tree.Optimal.run (M := C08.ExM) C08.exH 0 2 C08.exOps) 3 [7, 8] []).isOk = false ∧
    (Tree.Optimal.overrideRange C08.exH 0
      (Tree.Optimal.run (M := C08.ExM) C08.exH 0 2 C08.exOps) 0 [7] [4]).isOk = false := by decide

theorem C08_optimal_never_panics : ∀ d : Nat, 0 < d →
    ∀ (ops : List (TreeOp α)) (start : Nat) (vs : List α) (rem : List Nat),
    Tree.Optimal.overrideRange H dflt (Tree.Optimal.run (M := M) H dflt d ops) start vs rem ≠ .panic :=
  fun d hd ops start vs rem => (C08_optimal_batch H dflt M d hd ops start vs rem).keep.2.2

/-- `override_range` never panics on a reachable state of either in-memory backend -/
theorem C08_never_panics : ∀ d : Nat, 0 < d →
    ∀ (ops : List (TreeOp α)) (start : Nat) (vs : List α) (rem : List Nat),
    Tree.Full.overrideRange H dflt (Tree.Full.run H dflt d ops) start vs rem ≠ .panic ∧
    Tree.Optimal.overrideRange H dflt (Tree.Optimal.run (M := M) H dflt d ops) start vs rem ≠ .panic :=
  fun d hd ops start vs rem => ⟨C08_full_never_panics H dflt d ops start vs rem,
    C08_optimal_never_panics H dflt M d hd ops start vs rem⟩

example := C08_never_panics C08.exH 0 C08.ExM 2 (by decide) C08.exOps 9 [1] [9]

/-! ## `init_tree_with_leaves` is the batch on a fresh tree -/

/-- `Full.initTreeWithLeaves` / `Optimal.initTreeWithLeaves` (`set_tree(new)` then
    `set_leaves_from(0, vs)` = `override_range(0, vs, [])`) refine the ideal batch on the fresh tree -/
theorem C08_init_is_fresh_batch : ∀ (d : Nat) (vs : List α),
    Tree.RefinesOutcome (Tree.Full.Rel H dflt) (Tree.Full.new H dflt d) (Tree.Ideal.new d)
      (Tree.Full.initTreeWithLeaves H dflt d vs) (Tree.Ideal.batch dflt (Tree.Ideal.new d) 0 vs []) ∧
    (0 < d →
      Tree.RefinesOutcome (Tree.Optimal.Rel H dflt) (Tree.Optimal.new (M := M) H dflt d) (Tree.Ideal.new d)
        (Tree.Optimal.initTreeWithLeaves H dflt d vs) (Tree.Ideal.batch dflt (Tree.Ideal.new d) 0 vs [])) :=
  fun d vs => ⟨Full.init_refines H dflt d vs, fun hd => Optimal.init_refines M H dflt d hd vs⟩

example := C08_init_is_fresh_batch C08.exH 0 C08.ExM 2 [4, 5, 6]

/-- the specification side: a non-empty list that fits gives exactly `vs` followed by defaults -/
theorem C08_init_spec_leaves : ∀ (d : Nat) (vs : List α), vs ≠ [] → vs.length ≤ 2 ^ d →
    ∃ s', Tree.Ideal.batch dflt (Tree.Ideal.new d) 0 vs [] = .ok s' ∧ s'.depth = d ∧
      s'.next = vs.length ∧ ∀ i, s'.leaf dflt i = vs.getD i dflt :=
  fun d vs hne hfit => Ideal.init_leaves dflt d vs hne hfit

/-- the flat tree: accepted, `next` is the number of leaves, position `i` holds `vs[i]` or the default -/
theorem C08_full_init_leaves : ∀ (d : Nat) (vs : List α), vs ≠ [] → vs.length ≤ 2 ^ d →
    ∃ t', Tree.Full.initTreeWithLeaves H dflt d vs = .ok t' ∧ t'.next = vs.length ∧
      ∀ i, t'.get i = if i < 2 ^ d then .ok (vs.getD i dflt) else .err :=
  fun d vs hne hfit => Full.init_leaves H dflt d vs hne hfit

example : (Tree.Full.initTreeWithLeaves C08.exH 0 2 [4, 5, 6]).map
    (fun t => ([t.get 0, t.get 1, t.get 2, t.get 3], t.next)) = .ok ([.ok 4, .ok 5, .ok 6, .ok 0], 3) := by
  decide

theorem C08_optimal_init_leaves : ∀ d : Nat, 0 < d → ∀ vs : List α, vs ≠ [] → vs.length ≤ 2 ^ d →
    ∃ t', Tree.Optimal.initTreeWithLeaves (M := M) H dflt d vs = .ok t' ∧ t'.next = vs.length ∧
      ∀ i, t'.get i = if i < 2 ^ d then .ok (vs.getD i dflt) else .err :=
  fun d hd vs hne hfit => Optimal.init_leaves M H dflt d hd vs hne hfit

example : (Tree.Optimal.initTreeWithLeaves (M := C08.ExM) C08.exH 0 2 [4, 5, 6]).map
    (fun t => ([t.get 0, t.get 1, t.get 2, t.get 3], t.next)) = .ok ([.ok 4, .ok 5, .ok 6, .ok 0], 3) := by
  decide

end Zk
