import ZkProofs.Lemmas.ParProofs
import ZkProofs.Lemmas.TreeRun
/-!
# C18 — the data-parallel parts do not depend on the schedule; the open-retry loop is bounded

* pmtree's `batch_recalculate` forks the two recursive calls of every node (`rayon::join`) over a
  map behind a lock. `Par.valOf` is the value a task returns, `Par.writesOf` the writes the task tree
  performs, both in terms of the map *before* the batch. The sequential model `Pm.batchRecalc`
  (left, then right, then own key) returns `valOf`, leaves the key log alone, and its final map is
  what ANY completion order of the writes produces (`C18_batch_recalculate_schedule_free`); the
  tasks write pairwise different keys, all of them inner keys whose left child is in the map — the
  keys whose value is read from the map are exactly those without one
  (`C18_tasks_write_disjoint_keys`).
* `witness_map_from_matrices` fills vectors cell by cell (`cfg_iter_mut!`): the result of a
  cell-wise fill is the same for every visiting order (`C18_cellwise_fill_order_free`) and is the
  obvious one (`C18_cellwise_fill_spec`).
* `SledDB::new_with_tries`: at most ten `open` calls, success exactly when an attempt `k < 10`
  succeeds after only `WouldBlock` answers, the time slept before it is `(10^k - 1)/9` ms, never more
  than 1 111 111 111 ms in total (`C18_retry_bounded`).

Generic in the node type `α`, the hash `H` and every lawful batch map `S`.
-/
namespace Zk

open Tree Par

variable {α : Type} [Inhabited α]
  (S : Type) [MapLike S (Nat × Nat) α] [LawfulMapLike S (Nat × Nat) α] (H : α → α → α)

/-! ### concrete instance used by the non-vacuity examples -/

/-- a toy two-to-one function on `Nat` -/
def C18.exH : Nat → Nat → Nat := fun a b => 1000 * a + b + 1
abbrev C18.ExS := AList (Nat × Nat) Nat
/-- depth 2: a stale root, two stale inner nodes, four leaves -/
def C18.exMap : C18.ExS :=
  ⟨[((0, 0), 5), ((1, 0), 1), ((1, 1), 2), ((2, 0), 3), ((2, 1), 4), ((2, 2), 7), ((2, 3), 8)]⟩
/-- all keys of a depth-2 tree (and one outside) -/
def C18.exKeys : List (Nat × Nat) := [(0, 0), (1, 0), (1, 1), (2, 0), (2, 1), (2, 2), (2, 3), (3, 0)]

theorem C18_batch_recalculate_schedule_free :
    ∀ (f d i : Nat) (sub0 sub' : S) (v : α) (ks ks' : List (Nat × Nat)),
    Tree.Pm.batchRecalc H f d i sub0 ks = some (v, sub', ks') →
    Par.valOf H sub0 f d i = some v ∧ ks' = ks ∧
    ∀ (order : List ((Nat × Nat) × α)), order.Perm (Par.writesOf H sub0 f d i) →
      ∀ k, MapLike.get? (Par.applyWrites sub0 order) k = MapLike.get? sub' k :=
  Par.batchRecalc_schedule_free S H

/-- the three tasks of the depth-2 tree and their writes -/
example : Par.writesOf C18.exH C18.exMap 2 0 0 = [((1, 0), 3005), ((1, 1), 7009), ((0, 0), 3012010)] ∧
    Par.valOf C18.exH C18.exMap 2 0 0 = some 3012010 ∧
    (Tree.Pm.batchRecalc C18.exH 2 0 0 C18.exMap [(9, 9)]).map (fun r => (r.1, r.2.2)) =
      some (3012010, [(9, 9)]) := by decide +kernel

/-- two completion orders other than the sequential one, compared with the sequential result on every key -/
example :
    (Tree.Pm.batchRecalc C18.exH 2 0 0 C18.exMap []).map (fun r => C18.exKeys.map (MapLike.get? r.2.1)) =
      some (C18.exKeys.map (MapLike.get? (Par.applyWrites C18.exMap
        [((0, 0), 3012010), ((1, 1), 7009), ((1, 0), 3005)]))) ∧
    (Tree.Pm.batchRecalc C18.exH 2 0 0 C18.exMap []).map (fun r => C18.exKeys.map (MapLike.get? r.2.1)) =
      some (C18.exKeys.map (MapLike.get? (Par.applyWrites C18.exMap
        [((1, 1), 7009), ((0, 0), 3012010), ((1, 0), 3005)]))) ∧
    C18.exKeys.map (MapLike.get? (Par.applyWrites C18.exMap
        [((1, 1), 7009), ((0, 0), 3012010), ((1, 0), 3005)])) =
      [some 3012010, some 3005, some 7009, some 3, some 4, some 7, some 8, none] := by decide +kernel

example (sub' : C18.ExS) (v : Nat) (ks' : List (Nat × Nat))
    (h : Tree.Pm.batchRecalc C18.exH 2 0 0 C18.exMap [] = some (v, sub', ks')) :=
  (C18_batch_recalculate_schedule_free C18.ExS C18.exH 2 0 0 C18.exMap sub' v [] ks' h).2.2
    [((0, 0), 3012010), ((1, 1), 7009), ((1, 0), 3005)] (by decide +kernel)

theorem C18_tasks_write_disjoint_keys :
    ∀ (f d i : Nat) (sub0 : S), ((Par.writesOf H sub0 f d i).map (·.1)).Nodup ∧
    ∀ w ∈ Par.writesOf H sub0 f d i, ∃ x, MapLike.get? sub0 (w.1.1 + 1, 2 * w.1.2) = some x :=
  Par.disjoint_writes S H

example := C18_tasks_write_disjoint_keys C18.ExS C18.exH 2 0 0 C18.exMap
/-- the written keys are the inner ones; a subtree without a left child in the map is read, not written -/
example : (Par.writesOf C18.exH C18.exMap 2 0 0).map (·.1) = [(1, 0), (1, 1), (0, 0)] ∧
    Par.writesOf C18.exH (⟨[((1, 0), 1), ((2, 2), 3), ((2, 3), 4)]⟩ : C18.ExS) 2 0 0 =
      [((1, 1), 3005), ((0, 0), 4006)] := by decide +kernel

theorem C18_cellwise_fill_order_free :
    ∀ {β : Type} (f : Nat → β) (o1 o2 : List Nat) (v : Array β), o1.Perm o2 →
    Par.parFill f o1 v = Par.parFill f o2 v :=
  fun f o1 o2 v h => Par.parFill_perm f o1 o2 v h

example : Par.parFill (fun i => 10 * i + 1) [3, 0, 2, 0, 7] #[0, 0, 0, 0, 0] = #[1, 0, 21, 31, 0] ∧
    Par.parFill (fun i => 10 * i + 1) [0, 7, 0, 2, 3] #[0, 0, 0, 0, 0] = #[1, 0, 21, 31, 0] := by decide +kernel

theorem C18_cellwise_fill_spec :
    ∀ {β : Type} [Inhabited β] (f : Nat → β) (order : List Nat) (v : Array β) (j : Nat), j < v.size →
    (Par.parFill f order v)[j]! = if j ∈ order then f j else v[j]! :=
  fun f order v j h => Par.parFill_spec f order v j h

example := C18_cellwise_fill_spec (fun i => 10 * i + 1) [3, 0, 2] #[5, 6, 7, 8] 1 (by decide)

theorem C18_retry_bounded : ∀ outcomes : Nat → Retry.OpenResult,
    (Retry.open_ outcomes).attempts ≤ 10 ∧
    ((Retry.open_ outcomes).success = true ↔
      ∃ k, k < 10 ∧ outcomes k = .ok ∧ ∀ j, j < k → outcomes j = .wouldBlock) ∧
    ((Retry.open_ outcomes).success = true →
      (Retry.open_ outcomes).sleptMs = (10 ^ ((Retry.open_ outcomes).attempts - 1) - 1) / 9) ∧
    (Retry.open_ outcomes).sleptMs ≤ 1111111111 :=
  Retry.retry_bound

/-- busy, busy, opened: three attempts, 1 + 10 ms slept -/
example : Retry.open_ (fun k => [Retry.OpenResult.wouldBlock, .wouldBlock, .ok].getD k .otherError) = ⟨true, 3, 11⟩ := by
  decide +kernel
/-- any other error stops at once -/
example : Retry.open_ (fun _ => .otherError) = ⟨false, 1, 0⟩ := by decide +kernel
/-- opened at the first attempt: nothing slept -/
example : Retry.open_ (fun _ => .ok) = ⟨true, 1, 0⟩ := by decide +kernel
/-- ten busy answers: gives up after 1 111 111 111 ms, an `ok` at the eleventh position is never tried -/
example : Retry.open_ (fun k => if k < 10 then .wouldBlock else .ok) = ⟨false, 10, 1111111111⟩ := by
  decide +kernel
/-- success at the last permitted attempt -/
example : Retry.open_ (fun k => if k < 9 then .wouldBlock else .ok) = ⟨true, 10, 111111111⟩ := by
  decide +kernel

end Zk
