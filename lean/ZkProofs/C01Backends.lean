import ZkProofs.C01
import ZkProofs.C06
import ZkProofs.C06Pm
/-!
# C01 on the real tree backends, over every history

`C01.lean` proves prove-then-verify relative to the prover contract `Complete`, for any membership
path that recomputes the root, and instantiates it on the ideal tree. Here the statement is composed
with the refinement theorems of C06 (`Full`, `Optimal` for every lawful node map, `Pm` for every
lawful store / batch map on covered histories): for every history of tree calls started from the
freshly constructed backend, every position at which the backend *reads back* the rate commitment
`H(H(s), limit)` gives a request on which `generate_rln_proof` — fed with the backend's own
`proof` function — returns a 288-byte message that `verify`, `verify_rln_proof` against the
backend's root, and `verify_with_roots` (against `[root]` and against no roots) accept.

The tree hash is `fun a b => H [a, b]`, the default leaf `0`.
-/
namespace Zk
open Zk.Codec Zk.Protocol Zk.Public Zk.Proto

/-- the composition step: a backend whose observables at position `i` are those of an ideal tree
    `sp` of depth `d` (this is what the `obs_eq` lemmas give) -/
theorem C01_of_observables {Pr : Type} (Z : Snark Pr) (Pv : Prover Pr) (H : List Nat → Nat)
    (h2f : List UInt8 → Nat) (d : Nat) (sp : Tree.Ideal Nat)
    (treeProof : Nat → Outcome (List (Nat × Nat))) (root : Nat) (getI : Outcome Nat)
    (s i lim m e : Nat) (signal : List UInt8)
    (hC : Complete Z Pv H d) (hH : ∀ l, H l < P) (hh2f : ∀ b, h2f b < P)
    (hs : s < P) (hlim : lim < P) (he : e < P) (hid : i < 2 ^ d) (hi : i < 2 ^ 64)
    (hsig : signal.length < 2 ^ 64) (hml : m < lim) (hm16 : m < 2 ^ 16) (hlm : lim ≤ m + 2 ^ 16)
    (hdepth : sp.depth = d)
    (hroot : root = sp.root (fun a b => H [a, b]) 0)
    (hget : getI = if i < 2 ^ sp.depth then .ok (sp.leaf 0 i) else .err)
    (hproof : treeProof i = if i < 2 ^ sp.depth then .ok (sp.proof (fun a b => H [a, b]) 0 i) else .err)
    (hleaf : getI = .ok (H [H [s], lim])) :
    ∃ msg, generateRlnProof Z Pv H h2f d treeProof (prepareProveInput s i lim m e signal) = .ok msg ∧
      msg.length = 288 ∧
      verify Z msg = .ok true ∧
      verifyRlnProof Z h2f root (prepareVerifyInput msg signal) = .ok true ∧
      verifyWithRoots Z h2f (prepareVerifyInput msg signal) (frToBytesLe root) = .ok true ∧
      verifyWithRoots Z h2f (prepareVerifyInput msg signal) [] = .ok true := by
  have hit : i < 2 ^ sp.depth := by rw [hdepth]; exact hid
  rw [if_pos hit] at hget hproof
  have hl : sp.leaf 0 i = H [H [s], lim] := by
    rw [hget] at hleaf; exact Outcome.ok.inj hleaf
  obtain ⟨hlen, _, hbits, hcr⟩ := Tree.Ideal.proof_complete (fun a b => H [a, b]) 0 sp i hit
  rw [hl] at hcr
  rw [hdepth] at hlen
  exact C01_prove_then_verify Z Pv H h2f d treeProof root s i lim m e signal _ hC hH hh2f hs hlim he hi
    hsig hml hm16 hlm hproof hlen hbits (hcr.trans hroot.symm)

/-! ## FullMerkleTree -/

theorem C01_full_history :
    ∀ {Pr : Type} (Z : Snark Pr) (Pv : Prover Pr) (H : List Nat → Nat) (h2f : List UInt8 → Nat)
    (d : Nat) (ops : List (Tree.TreeOp Nat)) (s i lim m e : Nat) (signal : List UInt8),
    Complete Z Pv H d → (∀ l, H l < P) → (∀ b, h2f b < P) →
    s < P → lim < P → e < P → i < 2 ^ d → i < 2 ^ 64 → signal.length < 2 ^ 64 →
    m < lim → m < 2 ^ 16 → lim ≤ m + 2 ^ 16 →
    (Tree.Full.run (fun a b => H [a, b]) 0 d ops).get i = .ok (H [H [s], lim]) →
    let t := Tree.Full.run (fun a b => H [a, b]) 0 d ops
    ∃ msg, generateRlnProof Z Pv H h2f d (fun j => t.proof j) (prepareProveInput s i lim m e signal) = .ok msg ∧
      msg.length = 288 ∧
      verify Z msg = .ok true ∧
      verifyRlnProof Z h2f t.root (prepareVerifyInput msg signal) = .ok true ∧
      verifyWithRoots Z h2f (prepareVerifyInput msg signal) (frToBytesLe t.root) = .ok true ∧
      verifyWithRoots Z h2f (prepareVerifyInput msg signal) [] = .ok true := by
  intro Pr Z Pv H h2f d ops s i lim m e signal hC hH hh2f hs hlim he hid hi hsig hml hm16 hlm hleaf
  obtain ⟨o1, _, o3, _, _, o6⟩ :=
    Tree.Full.obs_eq (fun a b => H [a, b]) 0 _ _ (C06_full_refines (fun a b => H [a, b]) 0 d ops)
  exact C01_of_observables Z Pv H h2f d (Tree.Ideal.run 0 d ops) _ _ _ s i lim m e signal hC hH hh2f hs
    hlim he hid hi hsig hml hm16 hlm (Tree.Ideal.run_depth 0 d ops) o1 (o3 i) (o6 i) hleaf

/-! ## OptimalMerkleTree, for every lawful node map `M` -/

theorem C01_optimal_history :
    ∀ {Pr : Type} (Z : Snark Pr) (Pv : Prover Pr) (H : List Nat → Nat) (h2f : List UInt8 → Nat)
    (M : Type) [MapLike M (Nat × Nat) Nat] [LawfulMapLike M (Nat × Nat) Nat]
    (d : Nat) (ops : List (Tree.TreeOp Nat)) (s i lim m e : Nat) (signal : List UInt8),
    0 < d →
    Complete Z Pv H d → (∀ l, H l < P) → (∀ b, h2f b < P) →
    s < P → lim < P → e < P → i < 2 ^ d → i < 2 ^ 64 → signal.length < 2 ^ 64 →
    m < lim → m < 2 ^ 16 → lim ≤ m + 2 ^ 16 →
    (Tree.Optimal.run (M := M) (fun a b => H [a, b]) 0 d ops).get i = .ok (H [H [s], lim]) →
    let t := Tree.Optimal.run (M := M) (fun a b => H [a, b]) 0 d ops
    ∃ msg, generateRlnProof Z Pv H h2f d (fun j => t.proof j) (prepareProveInput s i lim m e signal) = .ok msg ∧
      msg.length = 288 ∧
      verify Z msg = .ok true ∧
      verifyRlnProof Z h2f t.root (prepareVerifyInput msg signal) = .ok true ∧
      verifyWithRoots Z h2f (prepareVerifyInput msg signal) (frToBytesLe t.root) = .ok true ∧
      verifyWithRoots Z h2f (prepareVerifyInput msg signal) [] = .ok true := by
  intro Pr Z Pv H h2f M _ _ d ops s i lim m e signal hd hC hH hh2f hs hlim he hid hi hsig hml hm16 hlm hleaf
  obtain ⟨o1, _, o3, _, _, o6⟩ :=
    Tree.Optimal.obs_eq M (fun a b => H [a, b]) 0 _ _
      (C06_optimal_refines (fun a b => H [a, b]) 0 M d hd ops)
  exact C01_of_observables Z Pv H h2f d (Tree.Ideal.run 0 d ops) _ _ _ s i lim m e signal hC hH hh2f hs
    hlim he hid hi hsig hml hm16 hlm (Tree.Ideal.run_depth 0 d ops) o1 (o3 i) (o6 i) hleaf

/-! ## persistent tree (pmtree + adapter), for every lawful store map `D` and batch map `S`,
    on covered histories -/

theorem C01_pm_history :
    ∀ {Pr : Type} (Z : Snark Pr) (Pv : Prover Pr) (H : List Nat → Nat) (h2f : List UInt8 → Nat)
    (D : Type) [MapLike D Tree.PmKey (Tree.PmVal Nat)] [LawfulMapLike D Tree.PmKey (Tree.PmVal Nat)]
    (S : Type) [MapLike S (Nat × Nat) Nat] [LawfulMapLike S (Nat × Nat) Nat]
    (d : Nat) (ops : List (Tree.TreeOp Nat)) (s i lim m e : Nat) (signal : List UInt8),
    0 < d → Tree.PmCovered ops →
    Complete Z Pv H d → (∀ l, H l < P) → (∀ b, h2f b < P) →
    s < P → lim < P → e < P → i < 2 ^ d → i < 2 ^ 64 → signal.length < 2 ^ 64 →
    m < lim → m < 2 ^ 16 → lim ≤ m + 2 ^ 16 →
    (Tree.Pm.run (D := D) S (fun a b => H [a, b]) 0 d ops).get i = .ok (H [H [s], lim]) →
    let t := Tree.Pm.run (D := D) S (fun a b => H [a, b]) 0 d ops
    ∃ msg, generateRlnProof Z Pv H h2f d (fun j => t.proof j) (prepareProveInput s i lim m e signal) = .ok msg ∧
      msg.length = 288 ∧
      verify Z msg = .ok true ∧
      verifyRlnProof Z h2f t.root (prepareVerifyInput msg signal) = .ok true ∧
      verifyWithRoots Z h2f (prepareVerifyInput msg signal) (frToBytesLe t.root) = .ok true ∧
      verifyWithRoots Z h2f (prepareVerifyInput msg signal) [] = .ok true := by
  intro Pr Z Pv H h2f D _ _ S _ _ d ops s i lim m e signal hd hc hC hH hh2f hs hlim he hid hi hsig hml hm16
    hlm hleaf
  obtain ⟨o1, _, o3, _, _, o6⟩ :=
    Tree.Pm.obs_eq D (fun a b => H [a, b]) 0 _ _
      (C06_pm_refines (fun a b => H [a, b]) 0 D S d hd ops hc)
  exact C01_of_observables Z Pv H h2f d (Tree.Ideal.run 0 d ops) _ _ _ s i lim m e signal hC hH hh2f hs
    hlim he hid hi hsig hml hm16 hlm (Tree.Ideal.run_depth 0 d ops) o1 (o3 i) (o6 i) hleaf

/-! ## all three backends -/

/-- on every (covered) history, each backend that reads back the rate commitment at position `i`
    serves a membership path with which the request proves and verifies against that backend's root -/
theorem C01_all_backends :
    ∀ {Pr : Type} (Z : Snark Pr) (Pv : Prover Pr) (H : List Nat → Nat) (h2f : List UInt8 → Nat)
    (M : Type) [MapLike M (Nat × Nat) Nat] [LawfulMapLike M (Nat × Nat) Nat]
    (D : Type) [MapLike D Tree.PmKey (Tree.PmVal Nat)] [LawfulMapLike D Tree.PmKey (Tree.PmVal Nat)]
    (S : Type) [MapLike S (Nat × Nat) Nat] [LawfulMapLike S (Nat × Nat) Nat]
    (d : Nat) (ops : List (Tree.TreeOp Nat)) (s i lim m e : Nat) (signal : List UInt8),
    0 < d →
    Complete Z Pv H d → (∀ l, H l < P) → (∀ b, h2f b < P) →
    s < P → lim < P → e < P → i < 2 ^ d → i < 2 ^ 64 → signal.length < 2 ^ 64 →
    m < lim → m < 2 ^ 16 → lim ≤ m + 2 ^ 16 →
    let Accepts := fun (treeProof : Nat → Outcome (List (Nat × Nat))) (root : Nat) =>
      ∃ msg, generateRlnProof Z Pv H h2f d treeProof (prepareProveInput s i lim m e signal) = .ok msg ∧
        msg.length = 288 ∧
        verify Z msg = .ok true ∧
        verifyRlnProof Z h2f root (prepareVerifyInput msg signal) = .ok true ∧
        verifyWithRoots Z h2f (prepareVerifyInput msg signal) (frToBytesLe root) = .ok true ∧
        verifyWithRoots Z h2f (prepareVerifyInput msg signal) [] = .ok true
    let tF := Tree.Full.run (fun a b => H [a, b]) 0 d ops
    let tO := Tree.Optimal.run (M := M) (fun a b => H [a, b]) 0 d ops
    let tP := Tree.Pm.run (D := D) S (fun a b => H [a, b]) 0 d ops
    (tF.get i = .ok (H [H [s], lim]) → Accepts (fun j => tF.proof j) tF.root) ∧
    (tO.get i = .ok (H [H [s], lim]) → Accepts (fun j => tO.proof j) tO.root) ∧
    (Tree.PmCovered ops → tP.get i = .ok (H [H [s], lim]) → Accepts (fun j => tP.proof j) tP.root) := by
  intro Pr Z Pv H h2f M _ _ D _ _ S _ _ d ops s i lim m e signal hd hC hH hh2f hs hlim he hid hi hsig hml hm16
    hlm
  exact ⟨C01_full_history Z Pv H h2f d ops s i lim m e signal hC hH hh2f hs hlim he hid hi hsig hml hm16 hlm,
    C01_optimal_history Z Pv H h2f M d ops s i lim m e signal hd hC hH hh2f hs hlim he hid hi hsig hml hm16 hlm,
    fun hc => C01_pm_history Z Pv H h2f D S d ops s i lim m e signal hd hc hC hH hh2f hs hlim he hid hi hsig
      hml hm16 hlm⟩

/-! ## non-vacuity: the hypotheses have a model -/

/-- depth 2: secret 5 / limit 10 registered at position 1 after a rejected `set`, an `append` landing
    at position 0, an `Err`-answered delete above the high-water mark and an empty range -/
def C01B.exOps : List (Tree.TreeOp Nat) :=
  [.set 9 1, .append 3, .set 1 (C01.exH [C01.exH [5], 10]), .delete 3, .setRange 7 [], .append 4]

theorem C01B.exOps_covered : Tree.PmCovered C01B.exOps := by
  intro op h
  simp only [C01B.exOps, List.mem_cons, List.not_mem_nil, or_false] at h
  rcases h with h | h | h | h | h | h <;> subst h <;> trivial

abbrev C01B.ExM := AList (Nat × Nat) Nat
abbrev C01B.ExD := AList Tree.PmKey (Tree.PmVal Nat)

theorem C01B.full_get :
    (Tree.Full.run (fun a b => C01.exH [a, b]) 0 2 C01B.exOps).get 1 = .ok (C01.exH [C01.exH [5], 10]) := by
  decide +kernel
theorem C01B.optimal_get :
    (Tree.Optimal.run (M := C01B.ExM) (fun a b => C01.exH [a, b]) 0 2 C01B.exOps).get 1
      = .ok (C01.exH [C01.exH [5], 10]) := by
  decide +kernel
theorem C01B.pm_get :
    (Tree.Pm.run (D := C01B.ExD) C01B.ExM (fun a b => C01.exH [a, b]) 0 2 C01B.exOps).get 1
      = .ok (C01.exH [C01.exH [5], 10]) := by
  decide +kernel

example := C01_full_history C01.exZ C01.exPv C01.exH C01.exh2f 2 C01B.exOps 5 1 10 2 9 [1, 2, 3]
  (C01.exComplete 2) C01.exH_lt C01.exh2f_lt (by decide) (by decide) (by decide) (by decide) (by decide)
  (by decide) (by decide) (by decide) (by decide) C01B.full_get
example := C01_optimal_history C01.exZ C01.exPv C01.exH C01.exh2f C01B.ExM 2 C01B.exOps 5 1 10 2 9 [1, 2, 3]
  (by decide) (C01.exComplete 2) C01.exH_lt C01.exh2f_lt (by decide) (by decide) (by decide) (by decide)
  (by decide) (by decide) (by decide) (by decide) (by decide) C01B.optimal_get
example := C01_pm_history C01.exZ C01.exPv C01.exH C01.exh2f C01B.ExD C01B.ExM 2 C01B.exOps 5 1 10 2 9 [1, 2, 3]
  (by decide) C01B.exOps_covered (C01.exComplete 2) C01.exH_lt C01.exh2f_lt (by decide) (by decide)
  (by decide) (by decide) (by decide) (by decide) (by decide) (by decide) (by decide) C01B.pm_get

/-- all three premises of `C01_all_backends` hold together on the example history, and the three
    backends report the same root -/
example :
    (Tree.Full.run (fun a b => C01.exH [a, b]) 0 2 C01B.exOps).root
      = (Tree.Optimal.run (M := C01B.ExM) (fun a b => C01.exH [a, b]) 0 2 C01B.exOps).root ∧
    (Tree.Full.run (fun a b => C01.exH [a, b]) 0 2 C01B.exOps).root
      = (Tree.Pm.run (D := C01B.ExD) C01B.ExM (fun a b => C01.exH [a, b]) 0 2 C01B.exOps).root ∧
    (Tree.Full.run (fun a b => C01.exH [a, b]) 0 2 C01B.exOps).root ≠
      (Tree.Full.run (fun a b => C01.exH [a, b]) 0 2 []).root := by
  decide +kernel

example := C01_all_backends C01.exZ C01.exPv C01.exH C01.exh2f C01B.ExM C01B.ExD C01B.ExM 2 C01B.exOps
  5 1 10 2 9 [1, 2, 3] (by decide) (C01.exComplete 2) C01.exH_lt C01.exh2f_lt (by decide) (by decide)
  (by decide) (by decide) (by decide) (by decide) (by decide) (by decide) (by decide)

end Zk
