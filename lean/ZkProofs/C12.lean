import ZkProofs.Lemmas.ProtoProofs
/-!
# C12 — the proving entry points: `Ok` implies a satisfiable witness, and the only crash

Partial: the software checks (`message_id < user_message_limit` only) accept requests that the
circuit cannot satisfy — `message_id ≥ 2^16`, `user_message_limit > message_id + 2^16`, or a
direction byte other than 0/1 (`OpenUnsat`, open finding C12-unsat-accepted) — and the witness
calculator asserts the input lengths (open finding C12-path-length-panic). Outside these shapes a
successful call had a circuit-satisfiable witness, and no other crash exists.
-/
namespace Zk
open Zk.Codec Zk.Protocol Zk.Public Zk.Proto

/-- a successful proving call decoded a witness that satisfies the circuit, or is of an open shape -/
theorem C12_ok_implies_satisfiable_partial :
    ∀ {Pr : Type} (Z : Snark Pr) (Pv : Prover Pr) (H : List Nat → Nat) (depth : Nat) (bs msg : List UInt8),
    generateRlnProofWithWitness Z Pv H depth bs = .ok msg →
    ∃ w n, deserializeWitness bs = .ok (w, n) ∧ (CircuitSat depth w ∨ OpenUnsat w) :=
  prover_ok_sat

/-- the only crash of `generate_rln_proof_with_witness` / `prove` is the length assertion of the
    witness calculator: the request decoded, and a vector has not the tree's depth -/
theorem C12_only_crash_is_length_assertion_partial :
    ∀ {Pr : Type} (Z : Snark Pr) (Pv : Prover Pr) (H : List Nat → Nat) (depth : Nat) (bs : List UInt8),
    (generateRlnProofWithWitness Z Pv H depth bs = .panic ∨ Public.prove Z Pv depth bs = .panic) →
    ∃ w n, deserializeWitness bs = .ok (w, n) ∧
      (w.pathElements.length ≠ depth ∨ w.identityPathIndex.length ≠ depth) :=
  prover_panic

/-! ## the open shapes are real in the model (kernel-checked witnesses) -/

/-- `message_id = 2^16`, `user_message_limit = 70000`, depth 20: passes the range check,
    `Num2Bits(16)(messageId)` is unsatisfiable -/
def C12.exW : Witness := { identitySecret := 1, userMessageLimit := 70000, messageId := 65536,
                           pathElements := List.replicate 20 0, identityPathIndex := List.replicate 20 0,
                           x := 3, externalNullifier := 4 }

theorem C12_open_shape_example :
    ∃ w, messageIdRangeCheck w.messageId w.userMessageLimit = .ok () ∧ ¬ CircuitSat 20 w :=
  ⟨C12.exW, by decide⟩

example : OpenUnsat C12.exW := .inl (by decide)

/-- the same request goes through the whole glue when the prover contract returns a proof: the
    software has no check that stops it -/
example : generateProof (Pr := Unit) ⟨fun _ => some ()⟩ 20 C12.exW = .ok () := by decide

/-- a limit more than `2^16` above the message id, and a direction byte 2 -/
example : messageIdRangeCheck 0 70000 = .ok () ∧
    ¬ CircuitSat 20 { C12.exW with messageId := 0 } ∧
    ¬ CircuitSat 20 { C12.exW with messageId := 5, userMessageLimit := 6,
                                   identityPathIndex := 2 :: List.replicate 19 0 } := by decide

/-- the crash: a 19-element path at depth 20 -/
example : generateProof (Pr := Unit) ⟨fun _ => some ()⟩ 20
    { C12.exW with pathElements := List.replicate 19 0 } = .panic := by decide

/-- the repaired boundary: `message_id = user_message_limit` is rejected -/
theorem C12_range_check_boundary : ∀ m : Nat, messageIdRangeCheck m m = .err :=
  fun m => by simp [messageIdRangeCheck]

/-- and the check is exactly `message_id < user_message_limit` -/
theorem C12_range_check_exact : ∀ m l : Nat, messageIdRangeCheck m l = .ok () ↔ m < l := by
  intro m l
  unfold messageIdRangeCheck
  by_cases h : m ≥ l
  · rw [if_pos h]; constructor
    · intro h'; cases h'
    · intro h'; omega
  · rw [if_neg h]; constructor
    · intro _; omega
    · intro _; rfl

end Zk
