import ZkProofs.Lemmas.GraphProofs
/-!
# C20 — the witness-graph evaluator, input placement and the graph container

`evaluate` (one pass over the node vector) returns, for every requested output, the reference
interpretation `denote` of that node; a well-formed graph never crashes on canonical inputs; the
input buffer does not depend on the iteration order of the supplied `HashMap` and every vector lands
at its declared offset; the container's own framing (LEB128 lengths, the ten-byte look-ahead with
its push-back stack, counts) and the node ↔ protobuf conversions round-trip.

Open findings of the code are documented by kernel-checked negations at the end
(C20-inputs-size-first-run, C20-unknown-input-name).
-/
namespace Zk

open Zk.Graph Zk.Graph.Storage

/-- a four-node graph: `n2 = in0 + in1`, `n3 = -n2` -/
private def g : List Node := [.input 0, .input 1, .duo .Add 0 1, .uno .Neg 2]

/-! ## the evaluator -/

theorem C20_single_pass_is_reference_interpretation : EvalAllDenoteStmt := evalAll_denote

example : evalAll #[1, 7] g #[] = .ok #[1, 7, 8, P - 8] ∧
    denote g.toArray #[1, 7] 4 3 = .ok (P - 8) ∧ denote g.toArray #[1, 7] 3 2 = .ok 8 := by
  decide +kernel

theorem C20_outputs_are_reference_interpretation : EvaluateDenoteStmt := evaluate_denote

example : evaluate g #[1, 7] [3, 2] = .ok [P - 8, 8] ∧
    denote g.toArray #[1, 7] ([3, 2][0]! + 1) [3, 2][0]! = .ok (P - 8) := by
  decide +kernel

theorem C20_wellformed_never_crashes : EvaluateTotalStmt := evaluate_total

/-- the hypotheses are satisfiable; without them the evaluator does crash (forward reference, `Pow`) -/
example : WellFormed g (#[1, 7] : Array Nat).size ∧ (∀ i, i < (#[1, 7] : Array Nat).size → (#[1, 7] : Array Nat)[i]! < P) ∧
    (∀ o ∈ [3, 2], o < g.length) ∧
    evaluate [.input 0, .duo .Add 0 2, .input 1] #[1, 7] [1] = .panic ∧
    evaluate [.input 0, .duo .Pow 0 0] #[1, 7] [1] = .panic := by
  decide +kernel

/-! ## input placement -/

private def info2 : List (String × Nat × Nat) := [("a", 1, 2), ("b", 3, 1)]

private theorem info2_fit : InputsFit info2 [("a", [5, 6]), ("b", [7])] := by
  refine ⟨by decide, ?_⟩
  intro e he
  simp only [List.mem_cons, List.not_mem_nil, or_false] at he
  rcases he with rfl | rfl
  · exact ⟨1, 2, by decide, rfl⟩
  · exact ⟨3, 1, by decide, rfl⟩

private theorem info2_layout : LayoutOk info2 (#[1, 0, 0, 0] : Array Nat).size := by
  unfold LayoutOk; decide

theorem C20_input_order_irrelevant : PopulatePermStmt := populate_perm

example : LayoutOk info2 (#[1, 0, 0, 0] : Array Nat).size ∧ InputsFit info2 [("a", [5, 6]), ("b", [7])] ∧
    [("b", [7]), ("a", [5, 6])].Perm [("a", [5, 6]), ("b", [7])] ∧
    populateInputs info2 [("b", [7]), ("a", [5, 6])] #[1, 0, 0, 0] = .ok #[1, 5, 6, 7] ∧
    populateInputs info2 [("a", [5, 6]), ("b", [7])] #[1, 0, 0, 0] = .ok #[1, 5, 6, 7] :=
  ⟨info2_layout, info2_fit, List.Perm.swap _ _ _, by decide, by decide⟩

theorem C20_inputs_at_declared_offsets : PopulatePlacesStmt := populate_places

/-- a partial assignment: `b` lands at offset 3, the cells of `a` and position 0 keep their content -/
example : LayoutOk info2 (#[1, 0, 0, 0] : Array Nat).size ∧ InputsFit info2 [("b", [7])] ∧
    populateInputs info2 [("b", [7])] #[1, 0, 0, 0] = .ok #[1, 0, 0, 7] :=
  ⟨info2_layout, ⟨by decide, fun e he => by
    simp only [List.mem_cons, List.not_mem_nil, or_false] at he
    subst he; exact ⟨3, 1, by decide, rfl⟩⟩, by decide⟩

/-! ## the container -/

theorem C20_varint_roundtrip : VarintStmt := varint_roundtrip

example : encVarint 300 = [0xAC, 0x02] ∧ decVarint 10 (encVarint 300 ++ [9, 9]) = some (300, 2) ∧
    (encVarint (2 ^ 64 - 1)).length = 10 ∧ decVarint 10 (encVarint (2 ^ 64 - 1)) = some (2 ^ 64 - 1, 10) := by
  decide +kernel

theorem C20_pushback_reader_in_order : WriteBackStmt := writeback_reader

/-- twelve bytes, a two-byte length prefix: the eight surplus look-ahead bytes are pushed back (in
    reverse); the next read continues at byte 2 and crosses from the stack into the reader -/
example :
    let bytes : List UInt8 := [0, 1, 2, 3, 4, 5, 6, 7, 8, 9, 10, 11]
    let r0 : WBR := { reader := bytes, buffer := [] }
    let (look, r1) := r0.read 10
    let r2 := r1.write (look.drop 2)
    look = [0, 1, 2, 3, 4, 5, 6, 7, 8, 9] ∧ r2.buffer = [9, 8, 7, 6, 5, 4, 3, 2] ∧
    (r2.read 5).1 = [2, 3, 4, 5, 6] ∧ (r2.read 10).1 = [2, 3, 4, 5, 6, 7, 8, 9, 10, 11] := by
  decide +kernel

theorem C20_container_framing_roundtrip : FramingStmt := framing_roundtrip

example : unframe (frame [[1, 2, 3], [], [0x80, 0xFF]] [9]) = some ([[1, 2, 3], [], [0x80, 0xFF]], [9]) ∧
    (frame [[1, 2, 3], [], [0x80, 0xFF]] [9]).length = 14 + 8 + (4 + 1 + 3) + 2 + 8 := by
  decide +kernel

theorem C20_node_conversion_roundtrip : NodeConvStmt := node_conv

/-- the hypothesis is needed: indices are truncated to 32 bits, constants are reduced -/
example : Serializable (.montConstant 256) ∧ toProto (.montConstant 256) = .ok (.constant [0, 1]) ∧
    ofProto (.constant [0, 1]) = .ok (.montConstant 256) ∧
    Serializable (.duo .Shr 7 (2 ^ 32 - 1)) ∧ toProto (.duo .Shr 7 (2 ^ 32 - 1)) = .ok (.duo 16 7 (2 ^ 32 - 1)) ∧
    ofProto (.duo 16 7 (2 ^ 32 - 1)) = .ok (.duo .Shr 7 (2 ^ 32 - 1)) ∧
    toProto (.input (2 ^ 32)) = .ok (.input 0) ∧ ofProto (.duo 20 0 0) = .panic := by
  unfold Serializable
  decide +kernel

/-! ## open findings of the code (kernel-checked negations) -/

/-- `get_inputs_size` stops at the end of the first run of input nodes: a later input node with a
    larger index reads outside the buffer (index panic) -/
theorem C20_inputs_size_stops_at_first_run :
    getInputsSize [.input 0, .input 1, .duo .Add 0 1, .input 5] false 0 = 2 ∧
    calcWitness [.input 0, .input 1, .duo .Add 0 1, .input 5] [3] [("a", 1, 1)] [("a", [7])] = .panic := by
  decide +kernel

/-- a supplied name that the graph does not declare is an index panic (`inputs_info[key]`) -/
theorem C20_unknown_input_name_panics :
    populateInputs [("a", 1, 1)] [("b", [1])] #[1, 0] = .panic := by
  decide +kernel

end Zk
