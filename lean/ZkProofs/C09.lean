import ZkModel.Hashers
import ZkProofs.Lemmas.Grain
/-!
# C09 — Poseidon and hash-to-field conform to their specifications (property theorems)

Helper lemmas are local to this file only where they are about the C09 definitions themselves.
-/
namespace Zk
open Poseidon

/-! ## (i) `Poseidon::hash` = the paper's three-phase permutation, for every parameter record and input -/

theorem ark_eq_addRC (pr : RoundParams) (st : List Nat) (r : Nat) :
    ark st pr.c (r * pr.t) = addRC pr r st := rfl

theorem mix2_eq_mix (pr : RoundParams) (st : List Nat) : mix2 st pr.m = mix pr st := rfl

theorem implStep_full (pr : RoundParams) (st : List Nat) (i : Nat)
    (h : i < pr.rf / 2 ∨ i ≥ pr.rf / 2 + pr.rp) :
    mix2 (sbox pr.rf pr.rp (ark st pr.c (i * pr.t)) i) pr.m = fullRound pr st i := by
  simp only [sbox, h, if_true, fullRound, ark_eq_addRC, mix2_eq_mix]

theorem implStep_partial (pr : RoundParams) (st : List Nat) (i : Nat)
    (h : ¬ (i < pr.rf / 2 ∨ i ≥ pr.rf / 2 + pr.rp)) :
    mix2 (sbox pr.rf pr.rp (ark st pr.c (i * pr.t)) i) pr.m = partialRound pr st i := by
  simp only [sbox, h, if_false, partialRound, ark_eq_addRC, mix2_eq_mix]

/-- a run of the implementation loop inside a region where every round is full -/
theorem implLoop_full (pr : RoundParams) : ∀ (n i : Nat) (st : List Nat),
    (∀ k, i ≤ k → k < i + n → (k < pr.rf / 2 ∨ k ≥ pr.rf / 2 + pr.rp)) →
    implLoop pr n i st = rounds (fullRound pr) n i st := by
  intro n
  induction n with
  | zero => intro i st _; rfl
  | succ n ih =>
    intro i st h
    simp only [implLoop, rounds]
    rw [implStep_full pr st i (h i (Nat.le_refl _) (by omega))]
    exact ih (i+1) _ (fun k h1 h2 => h k (by omega) (by omega))

theorem implLoop_partial (pr : RoundParams) : ∀ (n i : Nat) (st : List Nat),
    (∀ k, i ≤ k → k < i + n → ¬ (k < pr.rf / 2 ∨ k ≥ pr.rf / 2 + pr.rp)) →
    implLoop pr n i st = rounds (partialRound pr) n i st := by
  intro n
  induction n with
  | zero => intro i st _; rfl
  | succ n ih =>
    intro i st h
    simp only [implLoop, rounds]
    rw [implStep_partial pr st i (h i (Nat.le_refl _) (by omega))]
    exact ih (i+1) _ (fun k h1 h2 => h k (by omega) (by omega))

theorem implLoop_append (pr : RoundParams) : ∀ (a b i : Nat) (st : List Nat),
    implLoop pr (a + b) i st = implLoop pr b (i + a) (implLoop pr a i st) := by
  intro a
  induction a with
  | zero => intro b i st; simp [implLoop]
  | succ a ih =>
    intro b i st
    have : a + 1 + b = (a + b) + 1 := by omega
    rw [this]
    simp only [implLoop]
    rw [ih]
    congr 1
    omega

/-- **C09(i)**: for every parameter record and every input vector the implementation's single
loop computes the specification's three-phase permutation. -/
theorem poseidon_impl_eq_spec (pr : RoundParams) (inp : List Nat) :
    implHashWith pr inp = spec pr inp := by
  unfold implHashWith spec permSpec
  have hsplit : pr.rf + pr.rp = pr.rf / 2 + (pr.rp + (pr.rf - pr.rf / 2)) := by omega
  rw [hsplit, implLoop_append, implLoop_append]
  rw [implLoop_full pr (pr.rf / 2) 0 _ (fun k _ h2 => Or.inl (by omega))]
  rw [implLoop_partial pr pr.rp (0 + pr.rf / 2) _ (fun k h1 h2 => by omega)]
  rw [implLoop_full pr (pr.rf - pr.rf / 2) (0 + pr.rf / 2 + pr.rp) _ (fun k h1 _ => Or.inr (by omega))]
  simp

/-- the entry point used by zerokit: `Err` exactly for the empty input or a width without parameters -/
theorem implHash_ok (table : List RoundParams) (inp : List Nat) (pr : RoundParams)
    (hne : inp ≠ []) (hfind : table.find? (fun pr => pr.t == inp.length + 1) = some pr) :
    implHash table inp = .ok (spec pr inp) := by
  unfold implHash
  rw [hfind]
  have : inp.isEmpty = false := by cases inp <;> simp_all
  simp [this, poseidon_impl_eq_spec]

theorem implHash_empty (table : List RoundParams) : implHash table [] = .err := by
  unfold implHash; cases table.find? _ <;> simp

theorem rlnPoseidonHash_empty_panics (table : List RoundParams) :
    rlnPoseidonHash table [] = .panic := by
  unfold rlnPoseidonHash; rw [implHash_empty]

/-! ## (ii) constants: ring-buffer LFSR = shift-register LFSR -/

/-- **C09(ii)**: for every `(t, RF, RP, skip)` the round constants (rejection sampling) and the
Cauchy MDS matrix (mod-reduction sampling) derived by the ring-buffer LFSR of
`poseidon_constants.rs` are those derived by the shift register of the Poseidon reference script. -/
theorem grain_impl_eq_spec (t rf rp skip : Nat) :
    Poseidon.implParams t rf rp skip = Poseidon.specParams t rf rp skip :=
  Poseidon.grain_impl_eq_spec t rf rp skip

/-! ## (iii) the *generated* `ROUND_PARAMS` table is circomlib's for t = 2 … 9 -/

/-- **C09(iii)**: the table extracted from `rln/src/hashers.rs` on this run covers exactly the
widths 2…9 and each row is circomlib's `(t, 8, N_ROUNDS_P[t-2], 0)`. -/
theorem round_params_circomlib :
    Generated.roundParams = some ((List.range 8).filterMap (fun i => circomlibParams (i + 2))) := by
  decide

theorem round_params_rows (row : Nat × Nat × Nat × Nat) (tbl : List (Nat × Nat × Nat × Nat))
    (h : Generated.roundParams = some tbl) (hr : row ∈ tbl) :
    circomlibParams row.1 = some row ∧ 2 ≤ row.1 ∧ row.1 ≤ 9 := by
  rw [round_params_circomlib] at h
  injection h with h
  subst h
  revert row
  decide

/-! ## (iv) hash-to-field -/

theorem keccak256_length (bs : List UInt8) : (Keccak.keccak256 bs).length = 32 := by
  simp [Keccak.keccak256]

/-- **C09(iv)**: for every byte string, `hash_to_field` is the Keccak-256 digest read as a
little-endian integer and reduced modulo the field order; it is total (no panic branch reachable). -/
theorem hash_to_field_spec (bs : List UInt8) : hashToField bs = hashToFieldSpec bs := by
  unfold hashToField hashToFieldSpec bytesLeToFr
  have h := keccak256_length bs
  have h2 : ¬ (Keccak.keccak256 bs).length < FR_BYTES := by simp [h, FR_BYTES]
  simp only [h2, if_false]
  have : (Keccak.keccak256 bs).take FR_BYTES = Keccak.keccak256 bs := by
    apply List.take_of_length_le; simp [h, FR_BYTES]
  rw [this]

theorem hash_to_field_canonical (bs : List UInt8) : hashToField bs < P := by
  rw [hash_to_field_spec]; exact Nat.mod_lt _ P_pos

/-! ## Non-vacuity: concrete instances (these are tests of the statements' premises, labelled so) -/

example : circomlibParams 3 = some (3, 8, 57, 0) := by decide
example : ∃ tbl, Generated.roundParams = some tbl ∧ tbl.length = 8 := ⟨_, round_params_circomlib, by decide⟩

end Zk
