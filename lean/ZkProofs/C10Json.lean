import ZkProofs.Lemmas.JsonProofs
import ZkProofs.C10
import ZkModel.Generated.Layouts
/-!
# C10 — the JSON witness codec (`rln_witness_to_json` / `rln_witness_from_json` /
`rln_witness_to_bigint_json`, protocol.rs:728-803)

The model (`ZkModel/Json.lean`) is tied to the code by the C10 correspondence streams `json_text`,
`bigint_text` (the implementation's compact JSON text = `Json.render` of the model, byte for byte)
and `json_from` (objects given field by field, with the deviations an independent producer could
make). The theorems are about the model, for every witness and every object.
-/
namespace Zk
open Zk.Codec Zk.Protocol Zk.Json Zk.Proto

/-- lossless round trip: every canonical witness in range is encoded, and decoding the object
    gives it back -/
theorem C10_json_roundtrip : ∀ w : Witness, CanonW w → w.messageId < w.userMessageLimit →
    ∃ o, witnessToJson w = .ok o ∧ witnessFromJson o = .ok w := Json.roundtrip

/-- non-vacuity: `C10.exW` (path `[P-1, 5]`) meets the hypotheses and round-trips by evaluation -/
example : (witnessToJson C10.exW).bind witnessFromJson = .ok C10.exW := by decide +kernel

/-- the encoders refuse exactly the out-of-range witnesses and never panic -/
theorem C10_json_encode_err : ∀ w : Witness,
    (witnessToJson w = .err ↔ w.userMessageLimit ≤ w.messageId) ∧ witnessToJson w ≠ .panic ∧
    (witnessToBigintJson w = .err ↔ w.userMessageLimit ≤ w.messageId) ∧ witnessToBigintJson w ≠ .panic :=
  Json.encode_err

example : witnessToJson ⟨1, 5, 5, [], [], 0, 0⟩ = .err := by decide +kernel

/-- nothing non-canonical or out of range comes in through JSON -/
theorem C10_json_decode_canonical : ∀ (o : JObj) (w : Witness), witnessFromJson o = .ok w →
    w.identitySecret < P ∧ w.userMessageLimit < P ∧ w.messageId < P ∧ w.x < P ∧ w.externalNullifier < P ∧
    (∀ e ∈ w.pathElements, e < P) ∧ w.messageId < w.userMessageLimit := Json.decode_canonical

/-- the 32 bytes of `P` in the field `x` are refused (as a panic: the decoder unwraps) -/
example : witnessFromJson [("identity_secret", bytesVal (frToBytesLe 1)), ("user_message_limit", bytesVal (frToBytesLe 5)),
    ("message_id", bytesVal (frToBytesLe 2)), ("path_elements", bytesVal (vecFrToBytesLe [])), ("identity_path_index", .nums []),
    ("x", bytesVal (natLE 32 P)), ("external_nullifier", bytesVal (frToBytesLe 0))] = .panic := by decide +kernel

/-- the encoding loses nothing -/
theorem C10_json_encode_injective : ∀ (w w' : Witness) (o : JObj), CanonW w → CanonW w' →
    witnessToJson w = .ok o → witnessToJson w' = .ok o → w = w' := Json.encode_injective

/-- the JSON fields are the fields of the documented byte layout -/
theorem C10_json_matches_bytes : JsonMatchesBytesStmt := Json.matches_bytes

/-- the circom input file holds the decimal numerals of the fields -/
theorem C10_bigint_json : BigintJsonStmt := Json.bigint

example : (witnessToBigintJson C10.exW).map render =
    .ok ("{\"externalNullifier\":\"" ++ Nat.repr (P - 2) ++ "\",\"identityPathIndex\":[\"0\",\"1\"],\"identitySecret\":\"11\"," ++
         "\"messageId\":\"3\",\"pathElements\":[\"" ++ Nat.repr (P - 1) ++ "\",\"5\"],\"userMessageLimit\":\"100\",\"x\":\"77\"}") := by
  decide +kernel

/-- observation about the decoder as it is: bytes after the 32nd of a field are not read. (The
    last sentence of C10 is anchored in `deserialize_witness`, whose strictness is
    `C10_witness_no_trailing_or_missing_bytes`; the JSON decoder is lenient inside a field.) -/
theorem C10_json_decoder_ignores_trailing : JsonDecoderIgnoresTrailingStmt := Json.decoder_ignores_trailing

/-! ## the tie to the source: `Generated/Layouts.lean` is rewritten on every run (`tools/extract.py`
from protocol.rs — the serde field table of `RLNWitnessInput`, the `json!` object of
`rln_witness_to_bigint_json` — which must agree with `zkh dump`, the keys and value shapes of both
exports of a marker witness as compiled; rows in key order, the order a `serde_json::Map` iterates
in). The model's objects have exactly these keys in this order, and the generated tables are the
ones the model was written from. -/

/-- the serde table as the source has it now: seven fields, every field element (and the vector
    of them) through `ark_se` / `ark_de`, the index list as a plain `Vec<u8>` -/
theorem C10_json_struct_source :
    Generated.Layouts.jsonStructNames = some ["external_nullifier", "identity_path_index", "identity_secret", "message_id",
      "path_elements", "user_message_limit", "x"] ∧
    Generated.Layouts.jsonStructKinds = some ["ark:Fr", "plain:Vec<u8>", "ark:Fr", "ark:Fr", "ark:Vec<Fr>", "ark:Fr", "ark:Fr"] := by
  decide +kernel

/-- the decimal export as the source has it now -/
theorem C10_json_bigint_source :
    Generated.Layouts.jsonBigintKeys = some ["externalNullifier", "identityPathIndex", "identitySecret", "messageId",
      "pathElements", "userMessageLimit", "x"] ∧
    Generated.Layouts.jsonBigintFields = some ["external_nullifier:dec", "identity_path_index:declist", "identity_secret:dec",
      "message_id:dec", "path_elements:declist", "user_message_limit:dec", "x:dec"] := by
  decide +kernel

/-- the model's objects carry exactly the keys of the source's tables, in the map's order -/
theorem C10_json_model_keys : ∀ (w : Witness) (o : JObj),
    (witnessToJson w = .ok o → Generated.Layouts.jsonStructNames = some (o.map (·.1))) ∧
    (witnessToBigintJson w = .ok o → Generated.Layouts.jsonBigintKeys = some (o.map (·.1))) := by
  intro w o
  constructor
  · intro h
    unfold witnessToJson at h
    split at h
    · cases h; exact C10_json_struct_source.1
    · cases h
    · cases h
  · intro h
    unfold witnessToBigintJson at h
    split at h
    · cases h; exact C10_json_bigint_source.1
    · cases h
    · cases h

end Zk
