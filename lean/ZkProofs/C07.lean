import ZkProofs.Lemmas.TreeRun
import ZkProofs.Lemmas.TreeRunLemmas
import ZkProofs.Lemmas.FullProofs
import ZkProofs.Lemmas.OptimalProofs
import ZkProofs.Lemmas.IdealProofs
/-!
# C07 — membership proofs: complete on every history, binding up to a hash collision

Completeness: after any history, for every position `i` of the tree the backend's `proof i`
succeeds with a path of one sibling per level whose direction bits decode to `i`, which recomputes
the tree's root from the leaf stored at `i`, and which the backend's own `verify` accepts.
Soundness is collision extraction on the shared recomputation (`computeRootFrom` of both backends is
`Ideal.computeRoot`): two different openings of one root with the same direction bits, or the same
opening with one direction bit flipped, exhibit a collision of `H`.
-/
namespace Zk

open Tree

variable {α : Type} [Inhabited α] (H : α → α → α) (dflt : α)

/-- a toy two-to-one function on `Nat` -/
def C07.exH : Nat → Nat → Nat := fun a b => 1000 * a + b + 7
def C07.exOps : List (TreeOp Nat) := [.set 1 5, .set 9 1, .append 3, .set 0 8, .delete 0]
abbrev C07.ExM := AList (Nat × Nat) Nat

/-! ## completeness -/

theorem C07_full_proof_complete [BEq α] [LawfulBEq α] :
    ∀ (d : Nat) (ops : List (TreeOp α)) (i : Nat), i < 2 ^ d →
    ∃ π, (Tree.Full.run H dflt d ops).proof i = .ok π ∧
      (Tree.Full.run H dflt d ops).get i = .ok ((Tree.Ideal.run dflt d ops).leaf dflt i) ∧
      π.length = d ∧
      Tree.Full.leafIndex π = i ∧
      (∀ x ∈ π, x.2 = 0 ∨ x.2 = 1) ∧
      Tree.Full.computeRootFrom H ((Tree.Ideal.run dflt d ops).leaf dflt i) π
        = (Tree.Full.run H dflt d ops).root ∧
      Tree.Full.verify H (Tree.Full.run H dflt d ops) ((Tree.Ideal.run dflt d ops).leaf dflt i) π
        = .ok true := by
  intro d ops i hi
  have h := Full.proof_complete_of_rel H dflt (Full.run_rel H dflt d ops) i
    (by rw [Ideal.run_depth]; exact hi)
  rw [Ideal.run_depth] at h
  exact h

example := C07_full_proof_complete C07.exH 0 2 C07.exOps 2 (by decide)
example : (Tree.Full.run C07.exH 0 2 C07.exOps).proof 2 = .ok [(0, 0), (12, 1)] ∧
    (Tree.Full.run C07.exH 0 2 C07.exOps).get 2 = .ok 3 ∧
    Tree.Full.leafIndex [((0 : Nat), 0), (12, 1)] = 2 ∧
    Tree.Full.computeRootFrom C07.exH 3 [(0, 0), (12, 1)] = (Tree.Full.run C07.exH 0 2 C07.exOps).root ∧
    Tree.Full.verify C07.exH (Tree.Full.run C07.exH 0 2 C07.exOps) 3 [(0, 0), (12, 1)] = .ok true ∧
    Tree.Full.verify C07.exH (Tree.Full.run C07.exH 0 2 C07.exOps) 4 [(0, 0), (12, 1)] = .ok false := by
  decide

variable (M : Type) [MapLike M (Nat × Nat) α] [LawfulMapLike M (Nat × Nat) α]

theorem C07_optimal_proof_complete [BEq α] [LawfulBEq α] :
    ∀ d : Nat, 0 < d → ∀ (ops : List (TreeOp α)) (i : Nat), i < 2 ^ d →
    ∃ π, (Tree.Optimal.run (M := M) H dflt d ops).proof i = .ok π ∧
      (Tree.Optimal.run (M := M) H dflt d ops).get i = .ok ((Tree.Ideal.run dflt d ops).leaf dflt i) ∧
      π.length = d ∧
      Tree.Optimal.leafIndex π = i ∧
      (∀ x ∈ π, x.2 = 0 ∨ x.2 = 1) ∧
      Tree.Optimal.computeRootFrom H ((Tree.Ideal.run dflt d ops).leaf dflt i) π
        = (Tree.Optimal.run (M := M) H dflt d ops).root ∧
      Tree.Optimal.verify H (Tree.Optimal.run (M := M) H dflt d ops)
        ((Tree.Ideal.run dflt d ops).leaf dflt i) π = .ok true := by
  intro d hd ops i hi
  have h := Optimal.proof_complete_of_rel M H dflt (Optimal.run_rel M H dflt d hd ops) i
    (by rw [Ideal.run_depth]; exact hi)
  rw [Ideal.run_depth] at h
  exact h

example := C07_optimal_proof_complete C07.exH 0 C07.ExM 2 (by decide) C07.exOps 2 (by decide)
example : (Tree.Optimal.run (M := C07.ExM) C07.exH 0 2 C07.exOps).proof 2 = .ok [(0, 0), (12, 1)] ∧
    (Tree.Optimal.run (M := C07.ExM) C07.exH 0 2 C07.exOps).get 2 = .ok 3 ∧
    Tree.Optimal.leafIndex [((0 : Nat), 0), (12, 1)] = 2 ∧
    Tree.Optimal.verify C07.exH (Tree.Optimal.run (M := C07.ExM) C07.exH 0 2 C07.exOps) 3
      [(0, 0), (12, 1)] = .ok true ∧
    Tree.Optimal.verify C07.exH (Tree.Optimal.run (M := C07.ExM) C07.exH 0 2 C07.exOps) 3
      [(0, 0)] = .err := by
  decide

/-- the two in-memory backends produce the same path (siblings and direction bits) -/
theorem C07_paths_agree : ∀ d : Nat, 0 < d → ∀ (ops : List (TreeOp α)) (i : Nat),
    (Tree.Full.run H dflt d ops).proof i = (Tree.Optimal.run (M := M) H dflt d ops).proof i := by
  intro d hd ops i
  rw [(Full.obs_eq H dflt _ _ (Full.run_rel H dflt d ops)).2.2.2.2.2 i,
    (Optimal.obs_eq M H dflt _ _ (Optimal.run_rel M H dflt d hd ops)).2.2.2.2.2 i]

example := C07_paths_agree C07.exH 0 C07.ExM 2 (by decide) C07.exOps 1

omit [Inhabited α] in
/-- the recomputation of both backends is the specification's -/
theorem C07_computeRoot_agree : ∀ (lf : α) (π : List (α × Nat)),
    Tree.Full.computeRootFrom H lf π = Tree.Ideal.computeRoot H lf π ∧
    Tree.Optimal.computeRootFrom H lf π = Tree.Ideal.computeRoot H lf π :=
  fun lf π => ⟨Full.computeRootFrom_eq H π lf, Optimal.computeRootFrom_eq H π lf⟩

/-! ## soundness as collision extraction -/

/-- two different (leaf, siblings) with the same direction bits recomputing the same root exhibit a
    collision of `H` -/
theorem C07_binding : Tree.Ideal.BindingStmt H := Ideal.binding H

/-- the hypotheses are satisfiable: a non-injective `H` admits two openings of one root -/
example : ∃ a b c d : Nat, (a, b) ≠ (c, d) ∧ (fun x y : Nat => x + y) a b = (fun x y : Nat => x + y) c d :=
  C07_binding (fun x y : Nat => x + y) 1 2 [(2, 0)] [(1, 0)] (by decide) (by decide) (by decide)

/-- flipping one direction bit where running node and sibling differ, still recomputing the same
    root, exhibits a collision of `H` -/
theorem C07_dir_flip : Tree.Ideal.DirFlipStmt H := Ideal.dir_flip H

example : ∃ a b c d : Nat, (a, b) ≠ (c, d) ∧ (fun x y : Nat => x + y) a b = (fun x y : Nat => x + y) c d :=
  C07_dir_flip (fun x y : Nat => x + y) 1 [] [] 2 0 (Or.inl rfl) (by decide) (by decide)

end Zk
