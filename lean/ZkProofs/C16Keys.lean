import ZkModel.Tree.Pm
import Mathlib.Tactic.Ring
/-!
# C16 / C06 — the database keys of the persistent tree are distinct (discharges a modelling assumption)

`ZkModel/Tree/Pm.lean` keeps the key–value store abstract over `PmKey` (`node d i`, the two counters, the metadata slot).
pmtree 2.0.2 encodes a node key `(depth, index)` as the big-endian bytes of the Cantor pairing
`(d + i) * (d + i + 1) / 2 + i` computed in `usize` and cast to `u64`, and reserves `u64::MAX - 1` (depth), `u64::MAX`
(leaf count) and the eight bytes `b"metadata"`. The model is faithful only if that encoding is injective on the keys a tree
uses. This file proves it for every tree of depth at most 31 (zerokit uses 20): no two distinct keys share their bytes, no
arithmetic wraps, and the metadata slot is not a node.

`encodeKey` is the code's function on mathematical integers reduced modulo 2^64 (what `as u64` and wrapping `usize`
arithmetic produce on a 64-bit target).
-/
namespace Zk.Tree

/-- triangular number -/
def tri (w : Nat) : Nat := w * (w + 1) / 2

/-- the Cantor pairing pmtree uses for `(depth, index)` -/
def cantor (d i : Nat) : Nat := tri (d + i) + i

/-- big-endian 8 bytes of a number below 2^64 -/
def be8 (n : Nat) : List UInt8 := (List.range 8).map (fun k => UInt8.ofNat (n / 256 ^ (7 - k) % 256))

/-- `DBKey::from(Key(d, i))`, `DEPTH_KEY`, `NEXT_INDEX_KEY`, the metadata key -/
def encodeKey : PmKey → List UInt8
  | .node d i => be8 (((d + i) * (d + i + 1) % 2 ^ 64 / 2 + i) % 2 ^ 64)
  | .depthKey => be8 (2 ^ 64 - 2)
  | .nextKey => be8 (2 ^ 64 - 1)
  | .metaKey => "metadata".toUTF8.toList

/-- the keys a tree of depth at most 31 can use -/
def ValidKey : PmKey → Prop
  | .node d i => d ≤ 31 ∧ i < 2 ^ d
  | _ => True

-- helper lemmas

theorem two_mul_tri (w : Nat) : 2 * tri w = w * (w + 1) := by
  unfold tri
  have h : w * (w + 1) % 2 = 0 := by
    rcases Nat.mod_two_eq_zero_or_one w with h | h
    · rw [Nat.mul_mod, h]; simp
    · have h' : (w + 1) % 2 = 0 := by omega
      rw [Nat.mul_mod, h']; simp
  omega

theorem tri_mono {a b : Nat} (h : a ≤ b) : tri a ≤ tri b := by
  have ha := two_mul_tri a
  have hb := two_mul_tri b
  have : a * (a + 1) ≤ b * (b + 1) := Nat.mul_le_mul h (by omega)
  omega

theorem u8_ofNat_inj (a b : Nat) (h : UInt8.ofNat a = UInt8.ofNat b) : a % 256 = b % 256 := by
  have := congrArg UInt8.toNat h
  simpa [UInt8.toNat_ofNat] using this

theorem be8_eq (n : Nat) : be8 n =
    [UInt8.ofNat (n / 256 ^ 7 % 256), UInt8.ofNat (n / 256 ^ 6 % 256), UInt8.ofNat (n / 256 ^ 5 % 256),
     UInt8.ofNat (n / 256 ^ 4 % 256), UInt8.ofNat (n / 256 ^ 3 % 256), UInt8.ofNat (n / 256 ^ 2 % 256),
     UInt8.ofNat (n / 256 ^ 1 % 256), UInt8.ofNat (n / 256 ^ 0 % 256)] := by
  rfl

theorem meta_bytes : "metadata".toUTF8.toList = be8 0x6d65746164617461 := by
  decide +kernel

-- STATEMENTS TO PROVE (keep the statements exactly; add whatever lemmas are needed above them)

theorem tri_succ (w : Nat) : tri (w + 1) = tri w + w + 1 := by
  have h1 := two_mul_tri w
  have h2 := two_mul_tri (w + 1)
  have h3 : (w + 1) * (w + 1 + 1) = w * (w + 1) + 2 * (w + 1) := by ring
  omega

theorem cantor_injective (a b c d : Nat) (h : cantor a b = cantor c d) : a = c ∧ b = d := by
  unfold cantor at h
  have key : ∀ x y : Nat, x < y → ∀ p q : Nat, p ≤ x → tri x + p < tri y + q := by
    intro x y hxy p q hp
    have h1 := tri_succ x
    have h2 : tri (x + 1) ≤ tri y := tri_mono hxy
    omega
  rcases Nat.lt_trichotomy (a + b) (c + d) with hlt | heq | hgt
  · have := key _ _ hlt b d (by omega)
    omega
  · rw [heq] at h
    omega
  · have := key _ _ hgt d b (by omega)
    omega

/-- no wrap-around for valid node keys: the code's `usize` arithmetic is the mathematical Cantor pairing -/
theorem encodeKey_node_eq (d i : Nat) (h : ValidKey (.node d i)) : encodeKey (.node d i) = be8 (cantor d i) ∧ cantor d i < 2 ^ 62 := by
  obtain ⟨hd, hi⟩ := h
  have hpow : 2 ^ d ≤ 2 ^ 31 := Nat.pow_le_pow_right (by decide) hd
  have hw : d + i + 1 ≤ 2 ^ 31 + 32 := by omega
  have hprod : (d + i) * (d + i + 1) ≤ (2 ^ 31 + 32) * (2 ^ 31 + 32) := Nat.mul_le_mul (by omega) hw
  have h2 := two_mul_tri (d + i)
  have hlt : (d + i) * (d + i + 1) < 2 ^ 64 := by omega
  have hc : cantor d i < 2 ^ 62 := by
    unfold cantor
    omega
  refine ⟨?_, hc⟩
  show be8 (((d + i) * (d + i + 1) % 2 ^ 64 / 2 + i) % 2 ^ 64) = be8 (cantor d i)
  rw [Nat.mod_eq_of_lt hlt]
  have : (d + i) * (d + i + 1) / 2 + i = cantor d i := rfl
  rw [this, Nat.mod_eq_of_lt (by omega)]

theorem be8_injective (m n : Nat) (hm : m < 2 ^ 64) (hn : n < 2 ^ 64) (h : be8 m = be8 n) : m = n := by
  rw [be8_eq, be8_eq] at h
  simp only [List.cons.injEq, and_true] at h
  obtain ⟨h7, h6, h5, h4, h3, h2, h1, h0⟩ := h
  replace h7 := u8_ofNat_inj _ _ h7
  replace h6 := u8_ofNat_inj _ _ h6
  replace h5 := u8_ofNat_inj _ _ h5
  replace h4 := u8_ofNat_inj _ _ h4
  replace h3 := u8_ofNat_inj _ _ h3
  replace h2 := u8_ofNat_inj _ _ h2
  replace h1 := u8_ofNat_inj _ _ h1
  replace h0 := u8_ofNat_inj _ _ h0
  norm_num at h7 h6 h5 h4 h3 h2 h1 h0 hm hn
  omega

/-- the whole encoding is injective on valid keys -/
theorem C16_db_keys_injective (k1 k2 : PmKey) (h1 : ValidKey k1) (h2 : ValidKey k2) (h : encodeKey k1 = encodeKey k2) : k1 = k2 := by
  have node_ne : ∀ d i n, ValidKey (.node d i) → 2 ^ 62 ≤ n → n < 2 ^ 64 → encodeKey (.node d i) = be8 n → False := by
    intro d i n hv hlo hhi he
    obtain ⟨e, hc⟩ := encodeKey_node_eq d i hv
    rw [e] at he
    have := be8_injective _ _ (by omega) hhi he
    omega
  cases k1 with
  | node d i =>
    cases k2 with
    | node d' i' =>
      obtain ⟨e1, c1⟩ := encodeKey_node_eq d i h1
      obtain ⟨e2, c2⟩ := encodeKey_node_eq d' i' h2
      rw [e1, e2] at h
      have := be8_injective _ _ (by omega) (by omega) h
      obtain ⟨rfl, rfl⟩ := cantor_injective _ _ _ _ this
      rfl
    | depthKey => exact (node_ne d i (2 ^ 64 - 2) h1 (by decide) (by decide) h).elim
    | nextKey => exact (node_ne d i (2 ^ 64 - 1) h1 (by decide) (by decide) h).elim
    | metaKey => exact (node_ne d i 0x6d65746164617461 h1 (by decide) (by decide) (h.trans meta_bytes)).elim
  | depthKey =>
    cases k2 with
    | node d i => exact (node_ne d i (2 ^ 64 - 2) h2 (by decide) (by decide) h.symm).elim
    | depthKey => rfl
    | nextKey => exact absurd h (by decide +kernel)
    | metaKey => exact absurd h (by decide +kernel)
  | nextKey =>
    cases k2 with
    | node d i => exact (node_ne d i (2 ^ 64 - 1) h2 (by decide) (by decide) h.symm).elim
    | depthKey => exact absurd h (by decide +kernel)
    | nextKey => rfl
    | metaKey => exact absurd h (by decide +kernel)
  | metaKey =>
    cases k2 with
    | node d i => exact (node_ne d i 0x6d65746164617461 h2 (by decide) (by decide) (h.symm.trans meta_bytes)).elim
    | depthKey => exact absurd h (by decide +kernel)
    | nextKey => exact absurd h (by decide +kernel)
    | metaKey => rfl

/-- non-vacuity / sanity: the root of a depth-20 tree, its last leaf, and the reserved keys -/
example : encodeKey (.node 0 0) = [0, 0, 0, 0, 0, 0, 0, 0] ∧ encodeKey (.node 20 (2 ^ 20 - 1)) = be8 (cantor 20 (2 ^ 20 - 1)) ∧
    encodeKey .metaKey = [0x6d, 0x65, 0x74, 0x61, 0x64, 0x61, 0x74, 0x61] ∧ ValidKey (.node 20 (2 ^ 20 - 1)) := by
  refine ⟨by decide, ?_, by decide +kernel, ?_⟩
  · exact (encodeKey_node_eq 20 (2 ^ 20 - 1) (by unfold ValidKey; omega)).1
  · unfold ValidKey; omega

end Zk.Tree
