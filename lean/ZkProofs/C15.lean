import ZkProofs.Lemmas.TreeRun
import ZkProofs.Lemmas.TreeRunLemmas
import ZkProofs.Lemmas.FullProofs
import ZkProofs.Lemmas.OptimalProofs
import ZkProofs.Lemmas.IdealProofs
/-!
# C15 — `get_empty_leaves_indices` on every history

The specification: the ascending list of the positions below the high-water mark `next` that were
never written or whose last operation was a removal. After every history both in-memory backends
report exactly this list.
-/
namespace Zk

open Tree

variable {α : Type} [Inhabited α] (H : α → α → α) (dflt : α)

/-- a toy two-to-one function on `Nat` -/
def C15.exH : Nat → Nat → Nat := fun a b => 1000 * a + b + 7
/-- depth 3: 1 written, 9 rejected, 5 written (so `next = 6`), 1 removed, 7 not removable -/
def C15.exOps : List (TreeOp Nat) := [.set 1 5, .set 9 1, .set 5 2, .delete 1, .delete 7, .append 4]
abbrev C15.ExM := AList (Nat × Nat) Nat

theorem C15_full_empties : ∀ (d : Nat) (ops : List (TreeOp α)),
    (Tree.Full.run H dflt d ops).emptyIdx = (Tree.Ideal.run dflt d ops).emptyIdx :=
  fun d ops => (Full.obs_eq H dflt _ _ (Full.run_rel H dflt d ops)).2.2.2.2.1

example : (Tree.Full.run C15.exH 0 3 C15.exOps).emptyIdx = [0, 1, 2, 3, 4] ∧
    (Tree.Ideal.run 0 3 C15.exOps).emptyIdx = [0, 1, 2, 3, 4] ∧
    (Tree.Full.run C15.exH 0 3 C15.exOps).next = 7 := by decide

variable (M : Type) [MapLike M (Nat × Nat) α] [LawfulMapLike M (Nat × Nat) α]

theorem C15_optimal_empties : ∀ d : Nat, 0 < d → ∀ ops : List (TreeOp α),
    (Tree.Optimal.run (M := M) H dflt d ops).emptyIdx = (Tree.Ideal.run dflt d ops).emptyIdx :=
  fun d hd ops => (Optimal.obs_eq M H dflt _ _ (Optimal.run_rel M H dflt d hd ops)).2.2.2.2.1

example : (Tree.Optimal.run (M := C15.ExM) C15.exH 0 3 C15.exOps).emptyIdx = [0, 1, 2, 3, 4] := by decide

omit [Inhabited α] in
/-- what the specification's list is: below the high-water mark and not live -/
theorem C15_spec_characterisation : ∀ (s : Tree.Ideal α) (i : Nat),
    i ∈ s.emptyIdx ↔ i < s.next ∧ (s.live.lookup i).getD false = false :=
  fun s i => Ideal.mem_emptyIdx s i

omit [Inhabited α] in
/-- strictly ascending (in particular duplicate-free) -/
theorem C15_spec_sorted : ∀ s : Tree.Ideal α, s.emptyIdx.Pairwise (· < ·) :=
  fun s => Ideal.emptyIdx_sorted s

example : (5 : Nat) ∉ (Tree.Ideal.run 0 3 C15.exOps).emptyIdx ∧ 1 ∈ (Tree.Ideal.run 0 3 C15.exOps).emptyIdx ∧
    7 ∉ (Tree.Ideal.run 0 3 C15.exOps).emptyIdx := by decide

end Zk
