import ZkProofs.Lemmas.BytesProofs
/-!
# C13 — untrusted verification input

Whatever bytes reach `verify`, `verify_rln_proof`, `verify_with_roots` and `recover_id_secret`, none
of them crashes; a message is accepted only when each of its five public values is encoded
canonically (below the field order); two canonical encodings of the same five values are the same
bytes; and a `v + k·p` alias in any of the five positions is never accepted. Groth16 is the abstract
`Snark` contract.
-/
namespace Zk
open Zk.Codec Zk.Protocol Zk.Public Zk.Proto

/-! ## concrete values for the non-vacuity checks -/

def C13.exV : ProofValues := ⟨P - 1, 2, 3, 4, 5⟩
/-- a toy contract: any 128 bytes decode, the "pairing check" accepts exactly the inputs of `exV` -/
def C13.exZ : Snark Unit :=
  ⟨fun bs => if bs.length = 128 then some () else none,
   fun _ ins => some (decide (ins = publicInputs C13.exV)),
   fun _ => List.replicate 128 0⟩
def C13.exMsg : List UInt8 := List.replicate 128 7 ++ serializeProofValues C13.exV
/-- the same message with the `x` chunk replaced by the alias `x + P` (which still fits 32 bytes) -/
def C13.exAlias : List UInt8 :=
  List.replicate 128 7 ++ frToBytesLe 3 ++ frToBytesLe 5 ++ natLE 32 (4 + P) ++ frToBytesLe (P - 1) ++ frToBytesLe 2
def C13.exSignal : List UInt8 := [1, 2, 3]
def C13.exH2f : List UInt8 → Nat := fun b => b.length + 1

/-! ## no crash -/

theorem C13_verify_total : ∀ {Pr : Type} (Z : Snark Pr) (h2f : List UInt8 → Nat) (root : Nat) (bs rb : List UInt8),
    verify Z bs ≠ .panic ∧ verifyRlnProof Z h2f root bs ≠ .panic ∧ verifyWithRoots Z h2f bs rb ≠ .panic ∧
    recoverIdSecret bs rb ≠ .panic :=
  Proto.verify_total

/-- short, empty and over-declared inputs are errors -/
example : verify C13.exZ [] = .err ∧ verify C13.exZ (C13.exMsg.take 287) = .err ∧
    verifyRlnProof C13.exZ C13.exH2f 3 (C13.exMsg ++ natLE 8 (2 ^ 64 - 1)) = .err ∧
    verifyWithRoots C13.exZ C13.exH2f (C13.exMsg.take 200) [] = .err ∧
    recoverIdSecret (C13.exMsg.take 287) C13.exMsg = .err := by decide +kernel

/-! ## accepted ⇒ canonical -/

/-- accepted messages carry canonical encodings of their five public values -/
theorem C13_accepted_canonical : ∀ {Pr : Type} (Z : Snark Pr) (h2f : List UInt8 → Nat) (root : Nat) (bs rb : List UInt8),
    (verify Z bs = .ok true → allCanonical 5 (bs.drop 128) = true) ∧
    (verifyRlnProof Z h2f root bs = .ok true → allCanonical 5 ((bs.drop 128).take 160) = true) ∧
    (verifyWithRoots Z h2f bs rb = .ok true → allCanonical 5 ((bs.drop 128).take 160) = true) :=
  Proto.accepted_canonical

/-- the three hypotheses are satisfiable -/
example : verify C13.exZ C13.exMsg = .ok true ∧
    verifyRlnProof C13.exZ C13.exH2f 3 (prepareVerifyInput C13.exMsg C13.exSignal) = .ok true ∧
    verifyWithRoots C13.exZ C13.exH2f (prepareVerifyInput C13.exMsg C13.exSignal) (frToBytesLe 9 ++ frToBytesLe 3) = .ok true := by
  decide +kernel

/-! ## one encoding per value -/

/-- two canonical 160-byte blocks that decode to the same five values are equal -/
theorem C13_unique_encoding : ∀ (b1 b2 : List UInt8) (v : ProofValues), b1.length = 160 → b2.length = 160 →
    allCanonical 5 b1 = true → allCanonical 5 b2 = true →
    deserializeProofValues b1 = .ok (v, 160) → deserializeProofValues b2 = .ok (v, 160) → b1 = b2 :=
  Proto.unique_encoding

example := C13_unique_encoding (serializeProofValues C13.exV) (C13.exMsg.drop 128) C13.exV
  (by decide +kernel) (by decide +kernel) (by decide +kernel) (by decide +kernel) (by decide +kernel)
  (by decide +kernel)
/-- without canonicity the conclusion fails: the alias block decodes to the same values -/
example : deserializeProofValues (C13.exAlias.drop 128) = .ok (C13.exV, 160) ∧
    deserializeProofValues (C13.exMsg.drop 128) = .ok (C13.exV, 160) ∧
    C13.exAlias.drop 128 ≠ C13.exMsg.drop 128 ∧ allCanonical 5 (C13.exAlias.drop 128) = false := by
  decide +kernel

/-! ## aliases -/

/-- a `v + k·p` alias (any of the five chunks at or above the field order) is never accepted -/
theorem C13_alias_rejected : ∀ {Pr : Type} (Z : Snark Pr) (h2f : List UInt8 → Nat) (root : Nat) (bs rb : List UInt8)
    (j : Nat), j < 5 → leNat (((bs.drop (128 + 32 * j)).take 32)) ≥ P →
    verify Z bs ≠ .ok true ∧ verifyRlnProof Z h2f root bs ≠ .ok true ∧ verifyWithRoots Z h2f bs rb ≠ .ok true :=
  Proto.alias_rejected

example := C13_alias_rejected C13.exZ C13.exH2f 3 C13.exAlias [] 2 (by decide) (by decide +kernel)
/-- the alias of an accepted message is answered `Ok(false)` by all three entry points -/
example : verify C13.exZ C13.exAlias = .ok false ∧
    verifyRlnProof C13.exZ C13.exH2f 3 (prepareVerifyInput C13.exAlias C13.exSignal) = .ok false ∧
    verifyWithRoots C13.exZ C13.exH2f (prepareVerifyInput C13.exAlias C13.exSignal) [] = .ok false := by
  decide +kernel

end Zk
