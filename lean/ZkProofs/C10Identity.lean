import ZkModel.Identity
import ZkProofs.Lemmas.BytesLemmas
/-!
# C10 — identity tuples and single field elements: the encodings written by key generation are
read back exactly; the readers panic exactly on short buffers and never return a non-canonical value
-/
namespace Zk
open Zk.Codec Zk.Protocol

theorem frBytes_length (v : Nat) : (frToBytesLe v).length = 32 := by
  simp [frToBytesLe, FR_BYTES, natLE_length]

theorem bytesLeToFr_append (v : Nat) (hv : v < P) (rest : List UInt8) :
    bytesLeToFr (frToBytesLe v ++ rest) = .ok (v, 32) := by
  have hl := frBytes_length v
  unfold bytesLeToFr
  have h1 : ¬ (frToBytesLe v ++ rest).length < FR_BYTES := by simp [FR_BYTES, hl]
  rw [if_neg h1]
  have h2 : (frToBytesLe v ++ rest).take FR_BYTES = frToBytesLe v := by
    simp [FR_BYTES, hl]
  rw [h2]
  have h3 : leNat (frToBytesLe v) = v := by
    unfold frToBytesLe FR_BYTES
    exact leNat_natLE 32 v (Nat.lt_trans hv P_lt)
  rw [h3, Nat.mod_eq_of_lt hv]
  rfl

theorem drop32_frBytes (v : Nat) (rest : List UInt8) : (frToBytesLe v ++ rest).drop 32 = rest := by
  have hl := frBytes_length v
  rw [List.drop_append_of_le_length (by omega)]
  simp [List.drop_of_length_le, hl]

/-- one field element -/
theorem C10_field_element_roundtrip : ∀ v : Nat, v < P →
    deserializeFieldElement (serializeFieldElement v) = .ok v := by
  intro v hv
  have := bytesLeToFr_append v hv []
  simp only [List.append_nil] at this
  simp [deserializeFieldElement, serializeFieldElement, this]

/-- `[ secret | commitment ]` is read back exactly -/
theorem C10_identity_pair_roundtrip : ∀ s c : Nat, s < P → c < P →
    deserializeIdentityPair (serializeIdentityPair s c) = .ok (s, c) := by
  intro s c hs hc
  unfold deserializeIdentityPair serializeIdentityPair
  rw [bytesLeToFr_append s hs]
  simp only [drop32_frBytes]
  have := bytesLeToFr_append c hc []
  simp only [List.append_nil] at this
  rw [this]

/-- `[ trapdoor | nullifier | secret | commitment ]` is read back exactly -/
theorem C10_identity_tuple_roundtrip : ∀ t n s c : Nat, t < P → n < P → s < P → c < P →
    deserializeIdentityTuple (serializeIdentityTuple t n s c) = .ok (t, n, s, c) := by
  intro t n s c ht hn hs hc
  unfold deserializeIdentityTuple serializeIdentityTuple
  simp only [List.append_assoc]
  rw [bytesLeToFr_append t ht]
  simp only [drop32_frBytes]
  rw [bytesLeToFr_append n hn]
  have e1 : (frToBytesLe t ++ (frToBytesLe n ++ (frToBytesLe s ++ frToBytesLe c))).drop (32 + 32) = frToBytesLe s ++ frToBytesLe c := by
    rw [← List.drop_drop, drop32_frBytes, drop32_frBytes]
  simp only [e1]
  rw [bytesLeToFr_append s hs]
  have e2 : (frToBytesLe t ++ (frToBytesLe n ++ (frToBytesLe s ++ frToBytesLe c))).drop (32 + 32 + 32) = frToBytesLe c := by
    rw [← List.drop_drop, ← List.drop_drop, drop32_frBytes, drop32_frBytes, drop32_frBytes]
  simp only [e2]
  have := bytesLeToFr_append c hc []
  simp only [List.append_nil] at this
  rw [this]

example : deserializeIdentityTuple (serializeIdentityTuple (P - 1) 0 7 (P - 2)) = .ok (P - 1, 0, 7, P - 2) := by
  decide +kernel

/-- the pair reader panics exactly on buffers shorter than 64 bytes, never errs, and what it
    returns is canonical -/
theorem C10_identity_pair_total : ∀ bs : List UInt8,
    (deserializeIdentityPair bs = .panic ↔ bs.length < 64) ∧ deserializeIdentityPair bs ≠ .err ∧
    (∀ s c, deserializeIdentityPair bs = .ok (s, c) → s < P ∧ c < P) := by
  intro bs
  have hP : 0 < P := by decide +kernel
  unfold deserializeIdentityPair bytesLeToFr
  simp only [FR_BYTES, List.length_drop]
  by_cases h1 : bs.length < 32
  · simp [h1]; omega
  · simp only [h1, if_false]
    by_cases h2 : bs.length - 32 < 32
    · simp [h2]; omega
    · simp only [h2, if_false]
      refine ⟨by simp; omega, by simp, ?_⟩
      intro s c h
      simp only [Outcome.ok.injEq, Prod.mk.injEq] at h
      exact ⟨h.1 ▸ Nat.mod_lt _ hP, h.2 ▸ Nat.mod_lt _ hP⟩

/-- the tuple reader panics exactly on buffers shorter than 128 bytes and never errs -/
theorem C10_identity_tuple_total : ∀ bs : List UInt8,
    (deserializeIdentityTuple bs = .panic ↔ bs.length < 128) ∧ deserializeIdentityTuple bs ≠ .err := by
  intro bs
  unfold deserializeIdentityTuple bytesLeToFr
  simp only [FR_BYTES, List.length_drop]
  by_cases h1 : bs.length < 32
  · simp [h1]; omega
  · simp only [h1, if_false]
    by_cases h2 : bs.length - 32 < 32
    · simp [h2]; omega
    · simp only [h2, if_false]
      by_cases h3 : bs.length - (32 + 32) < 32
      · simp [h3]; omega
      · simp only [h3, if_false]
        by_cases h4 : bs.length - (32 + 32 + 32) < 32
        · simp [h4]; omega
        · simp only [h4, if_false]
          exact ⟨by simp; omega, by simp⟩

example : deserializeIdentityPair (List.replicate 63 0) = .panic := by decide +kernel

end Zk
