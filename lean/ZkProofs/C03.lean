import ZkProofs.Lemmas.ProtoProofs
/-!
# C03 — secret recovery and nullifiers

`compute_id_secret` interpolates the line `y = s + x·a₁` through two shares. Over the field of
`P` elements (`P` is prime: Lucas/Pratt certificate in `Lemmas/FieldBridge.lean`, the model's `finv`
is the field inverse by Fermat) two shares of one identity in one epoch / message id with different
signal hashes give back the identity secret, on field elements and end to end on the message
encodings; equal `x` is an error; different external nullifiers recover nothing. The nullifier does
not depend on the signal, and two different (external nullifier, message id) pairs with one
nullifier exhibit a Poseidon collision.
-/
namespace Zk
open Zk.Codec Zk.Protocol Zk.Public Zk.Proto

/-- toy stand-in for Poseidon with values below `P` -/
def C03.exH : List Nat → Nat := fun l => l.foldl (fun acc v => 1000 * acc + v + 7) 1 % 1000003
theorem C03.exH_lt : ∀ l, C03.exH l < P := fun _ => Nat.lt_trans (Nat.mod_lt _ (by decide)) (by decide)
def C03.exW : Witness := { identitySecret := 5, userMessageLimit := 10, messageId := 2,
                           pathElements := [11, 12], identityPathIndex := [0, 1], x := 21,
                           externalNullifier := 9 }

/-- the arithmetic of the model is the arithmetic of a field -/
theorem C03_field_is_a_field : Nat.Prime P := P_prime

/-- the model's inverse is the field inverse -/
theorem C03_inverse_is_inverse : ∀ b : Nat, b < P → b ≠ 0 → fmul b (finv b) = 1 := finv_mul

example : fmul 3 (finv 3) = 1 := by decide +kernel

/-- two shares of the same line with different `x` recover the secret -/
theorem C03_recover_secret : ∀ s a x1 x2 : Nat, s < P → a < P → x1 < P → x2 < P → x1 ≠ x2 →
    computeIdSecret x1 (fadd s (fmul x1 a)) x2 (fadd s (fmul x2 a)) = .ok s :=
  recover_secret

example := C03_recover_secret 5 7 1 2 (by decide) (by decide) (by decide) (by decide) (by decide)
example : computeIdSecret 1 (fadd 5 (fmul 1 7)) 2 (fadd 5 (fmul 2 7)) = .ok 5 := by decide +kernel

/-- equal `x` (the same signal twice) is an error, never a division by zero -/
theorem C03_recover_degenerate_is_error : ∀ x y1 y2 : Nat, computeIdSecret x y1 x y2 = .err :=
  recover_degenerate

example : computeIdSecret 3 10 3 11 = .err := by decide

/-- the nullifier, the root and the external nullifier do not depend on the signal hash `x` -/
theorem C03_nullifier_independent_of_signal :
    ∀ (H : List Nat → Nat) (w : Witness) (x' : Nat) (v v' : ProofValues),
    proofValuesFromWitness H w = .ok v → proofValuesFromWitness H { w with x := x' } = .ok v' →
    v.nullifier = v'.nullifier ∧ v.root = v'.root ∧ v.externalNullifier = v'.externalNullifier :=
  nullifier_signal_free

example : (proofValuesFromWitness C03.exH C03.exW).isOk ∧
    (proofValuesFromWitness C03.exH { C03.exW with x := 22 }).isOk := by decide

/-- end to end on message encodings: two messages of one identity in one epoch / message id with
    different signal hashes give back the secret -/
theorem C03_recover_from_messages :
    ∀ (H : List Nat → Nat) (w : Witness) (x' : Nat) (v v' : ProofValues) (pb pb' : List UInt8),
    (∀ l, H l < P) → CanonW w → x' < P → w.x ≠ x' → pb.length = 128 → pb'.length = 128 →
    proofValuesFromWitness H w = .ok v → proofValuesFromWitness H { w with x := x' } = .ok v' →
    recoverIdSecret (pb ++ serializeProofValues v) (pb' ++ serializeProofValues v') =
      .ok (frToBytesLe w.identitySecret) :=
  recover_from_messages

example : recoverIdSecret
    (List.replicate 128 0 ++ serializeProofValues (specProofValues C03.exH C03.exW))
    (List.replicate 128 1 ++ serializeProofValues (specProofValues C03.exH { C03.exW with x := 22 })) =
    .ok (frToBytesLe 5) :=
  C03_recover_from_messages C03.exH C03.exW 22 _ _ _ _ C03.exH_lt (by unfold CanonW; decide) (by decide)
    (by decide) (by simp) (by simp) (by decide) (by decide)

/-- different external nullifiers (epochs): the call succeeds with an empty output -/
theorem C03_different_external_nullifier_recovers_nothing :
    ∀ (v v' : ProofValues) (pb pb' : List UInt8), CanonV v → CanonV v' → pb.length = 128 → pb'.length = 128 →
    v.externalNullifier ≠ v'.externalNullifier →
    recoverIdSecret (pb ++ serializeProofValues v) (pb' ++ serializeProofValues v') = .ok [] :=
  recover_different_epoch

example := C03_different_external_nullifier_recovers_nothing
  { y := 1, nullifier := 2, root := 3, x := 4, externalNullifier := 5 }
  { y := 1, nullifier := 2, root := 3, x := 6, externalNullifier := 7 }
  (List.replicate 128 0) (List.replicate 128 1)
  (by unfold CanonV; decide) (by unfold CanonV; decide) (by simp) (by simp) (by decide)

/-- distinct (external nullifier, message id) with equal nullifiers exhibit a Poseidon collision -/
theorem C03_distinct_nullifiers_or_collision :
    ∀ (H : List Nat → Nat) (s e m e' m' : Nat), (e, m) ≠ (e', m') →
    H [H [s, e, m]] = H [H [s, e', m']] →
    ∃ l l' : List Nat, l ≠ l' ∧ H l = H l' :=
  nullifier_collision

/-- the hypothesis is satisfiable exactly by colliding functions, e.g. a constant one -/
example := C03_distinct_nullifiers_or_collision (fun _ => 0) 1 2 3 2 4 (by decide) rfl

end Zk
