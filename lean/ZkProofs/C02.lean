import ZkProofs.Lemmas.BytesProofs
/-!
# C02 — what acceptance implies, and what tampering does

Over the abstract Groth16 contract `Snark`: `verify` answers `Ok(true)` only on a 288-byte message
whose proof bytes decode and whose pairing check passes on exactly the five decoded public values;
`verify_rln_proof` additionally only when the signal that follows (with its exact length) hashes to
the message's `x` and the message's root is the tree root; `verify_with_roots` only when the root is
one of the supplied roots (or none were supplied). The `exact` forms give the verdict on every
well-formed message as a conjunction, from which: a different signal, a different root, a root
outside a non-empty root set and a failing pairing check each give `Ok(false)`.
-/
namespace Zk
open Zk.Codec Zk.Protocol Zk.Public Zk.Proto

/-! ## concrete values for the non-vacuity checks -/

def C02.exV : ProofValues := ⟨P - 1, 2, 3, 4, 5⟩
/-- a toy contract: any 128 bytes decode, the "pairing check" accepts exactly the inputs of `exV` -/
def C02.exZ : Snark Unit :=
  ⟨fun bs => if bs.length = 128 then some () else none,
   fun _ ins => some (decide (ins = publicInputs C02.exV)),
   fun _ => List.replicate 128 0⟩
def C02.exPb : List UInt8 := List.replicate 128 7
def C02.exMsg : List UInt8 := C02.exPb ++ serializeProofValues C02.exV
def C02.exSignal : List UInt8 := [1, 2, 3]
def C02.exH2f : List UInt8 → Nat := fun b => b.length + 1
/-- values on which the toy pairing check fails -/
def C02.exVbad : ProofValues := ⟨P - 1, 2, 3, 4, 6⟩

/-! ## soundness of acceptance -/

theorem C02_verify_sound : ∀ {Pr : Type} (Z : Snark Pr) (bs : List UInt8), verify Z bs = .ok true →
    ∃ proof v, bs.length = 288 ∧ Z.decode (bs.take 128) = some proof ∧
      deserializeProofValues (bs.drop 128) = .ok (v, 160) ∧ Z.verify proof (publicInputs v) = some true :=
  Proto.verify_sound

example := C02_verify_sound C02.exZ C02.exMsg (by decide +kernel)

theorem C02_verifyRln_sound : ∀ {Pr : Type} (Z : Snark Pr) (h2f : List UInt8 → Nat) (root : Nat) (bs : List UInt8),
    verifyRlnProof Z h2f root bs = .ok true →
    ∃ proof v signal, Z.decode (bs.take 128) = some proof ∧
      deserializeProofValues (bs.drop 128) = .ok (v, 160) ∧
      bs = bs.take 288 ++ natLE 8 signal.length ++ signal ∧ signal.length < 2 ^ 64 ∧
      Z.verify proof (publicInputs v) = some true ∧ v.x = h2f signal ∧ v.root = root :=
  Proto.verifyRln_sound

example := C02_verifyRln_sound C02.exZ C02.exH2f 3 (prepareVerifyInput C02.exMsg C02.exSignal)
  (by decide +kernel)

theorem C02_verifyRoots_sound : ∀ {Pr : Type} (Z : Snark Pr) (h2f : List UInt8 → Nat) (bs rb : List UInt8),
    verifyWithRoots Z h2f bs rb = .ok true →
    ∃ proof v signal, Z.decode (bs.take 128) = some proof ∧
      deserializeProofValues (bs.drop 128) = .ok (v, 160) ∧
      bs = bs.take 288 ++ natLE 8 signal.length ++ signal ∧
      Z.verify proof (publicInputs v) = some true ∧ v.x = h2f signal ∧
      rb.length % 32 = 0 ∧
      (rb = [] ∨ ∃ k, k < rb.length / 32 ∧ leNat ((rb.drop (32 * k)).take 32) % P = v.root) :=
  Proto.verifyRoots_sound

example := C02_verifyRoots_sound C02.exZ C02.exH2f (prepareVerifyInput C02.exMsg C02.exSignal)
  (frToBytesLe 9 ++ frToBytesLe 3) (by decide +kernel)
example := C02_verifyRoots_sound C02.exZ C02.exH2f (prepareVerifyInput C02.exMsg C02.exSignal) []
  (by decide +kernel)

/-! ## the exact verdict on well-formed messages -/

theorem C02_verifyRln_exact : ∀ {Pr : Type} (Z : Snark Pr) (h2f : List UInt8 → Nat) (root : Nat) (pb : List UInt8)
    (v : ProofValues) (signal : List UInt8) (proof : Pr) (b : Bool),
    pb.length = 128 → CanonV v → signal.length < 2 ^ 64 → Z.decode pb = some proof →
    Z.verify proof (publicInputs v) = some b →
    verifyRlnProof Z h2f root (prepareVerifyInput (pb ++ serializeProofValues v) signal) =
      .ok (b && decide (root = v.root) && decide (h2f signal = v.x)) :=
  Proto.verifyRln_exact

example : CanonV C02.exV ∧ CanonV C02.exVbad := by unfold CanonV; decide +kernel
example := C02_verifyRln_exact C02.exZ C02.exH2f 3 C02.exPb C02.exV C02.exSignal () true
  (by decide +kernel) (by unfold CanonV; decide +kernel) (by decide +kernel) (by decide +kernel) (by decide +kernel)

theorem C02_verifyRoots_exact : ∀ {Pr : Type} (Z : Snark Pr) (h2f : List UInt8 → Nat) (roots : List Nat)
    (pb : List UInt8) (v : ProofValues) (signal : List UInt8) (proof : Pr) (b : Bool),
    pb.length = 128 → CanonV v → signal.length < 2 ^ 64 → Z.decode pb = some proof →
    Z.verify proof (publicInputs v) = some b → (∀ r ∈ roots, r < P) →
    verifyWithRoots Z h2f (prepareVerifyInput (pb ++ serializeProofValues v) signal) (roots.map frToBytesLe).flatten =
      .ok (b && decide (h2f signal = v.x) && (roots.isEmpty || roots.contains v.root)) :=
  Proto.verifyRoots_exact

example := C02_verifyRoots_exact C02.exZ C02.exH2f [9, 3] C02.exPb C02.exV C02.exSignal () true
  (by decide +kernel) (by unfold CanonV; decide +kernel) (by decide +kernel) (by decide +kernel) (by decide +kernel)
  (by decide +kernel)

/-! ## tampering corollaries -/

/-- a signal that does not hash to the message's `x` is rejected by both entry points -/
theorem C02_wrong_signal_rejected {Pr : Type} (Z : Snark Pr) (h2f : List UInt8 → Nat) (root : Nat)
    (roots : List Nat) (pb : List UInt8) (v : ProofValues) (signal' : List UInt8) (proof : Pr) (b : Bool)
    (hpb : pb.length = 128) (hv : CanonV v) (hs : signal'.length < 2 ^ 64) (hd : Z.decode pb = some proof)
    (hz : Z.verify proof (publicInputs v) = some b) (hr : ∀ r ∈ roots, r < P)
    (hne : h2f signal' ≠ v.x) :
    verifyRlnProof Z h2f root (prepareVerifyInput (pb ++ serializeProofValues v) signal') = .ok false ∧
    verifyWithRoots Z h2f (prepareVerifyInput (pb ++ serializeProofValues v) signal')
      (roots.map frToBytesLe).flatten = .ok false := by
  rw [Proto.verifyRln_exact Z h2f root pb v signal' proof b hpb hv hs hd hz,
    Proto.verifyRoots_exact Z h2f roots pb v signal' proof b hpb hv hs hd hz hr]
  simp [hne]

example := C02_wrong_signal_rejected C02.exZ C02.exH2f 3 [3] C02.exPb C02.exV [1, 2, 3, 4] () true
  (by decide +kernel) (by unfold CanonV; decide +kernel) (by decide +kernel) (by decide +kernel) (by decide +kernel)
  (by decide +kernel) (by decide +kernel)

/-- a tree root other than the message's root is rejected -/
theorem C02_wrong_root_rejected {Pr : Type} (Z : Snark Pr) (h2f : List UInt8 → Nat) (root : Nat)
    (pb : List UInt8) (v : ProofValues) (signal : List UInt8) (proof : Pr) (b : Bool)
    (hpb : pb.length = 128) (hv : CanonV v) (hs : signal.length < 2 ^ 64) (hd : Z.decode pb = some proof)
    (hz : Z.verify proof (publicInputs v) = some b) (hne : root ≠ v.root) :
    verifyRlnProof Z h2f root (prepareVerifyInput (pb ++ serializeProofValues v) signal) = .ok false := by
  rw [Proto.verifyRln_exact Z h2f root pb v signal proof b hpb hv hs hd hz]
  simp [hne]

example := C02_wrong_root_rejected C02.exZ C02.exH2f 4 C02.exPb C02.exV C02.exSignal () true
  (by decide +kernel) (by unfold CanonV; decide +kernel) (by decide +kernel) (by decide +kernel) (by decide +kernel) (by decide +kernel)

/-- a non-empty root set that does not contain the message's root is rejected -/
theorem C02_root_not_in_nonempty_set_rejected {Pr : Type} (Z : Snark Pr) (h2f : List UInt8 → Nat)
    (roots : List Nat) (pb : List UInt8) (v : ProofValues) (signal : List UInt8) (proof : Pr) (b : Bool)
    (hpb : pb.length = 128) (hv : CanonV v) (hs : signal.length < 2 ^ 64) (hd : Z.decode pb = some proof)
    (hz : Z.verify proof (publicInputs v) = some b) (hr : ∀ r ∈ roots, r < P)
    (hne : roots ≠ []) (hnot : v.root ∉ roots) :
    verifyWithRoots Z h2f (prepareVerifyInput (pb ++ serializeProofValues v) signal)
      (roots.map frToBytesLe).flatten = .ok false := by
  rw [Proto.verifyRoots_exact Z h2f roots pb v signal proof b hpb hv hs hd hz hr]
  have h1 : roots.isEmpty = false := by simpa using hne
  have h2 : roots.contains v.root = false := by simpa using hnot
  rw [h1, h2]; simp

example := C02_root_not_in_nonempty_set_rejected C02.exZ C02.exH2f [9, 4] C02.exPb C02.exV C02.exSignal () true
  (by decide +kernel) (by unfold CanonV; decide +kernel) (by decide +kernel) (by decide +kernel) (by decide +kernel)
  (by decide +kernel) (by decide +kernel) (by decide +kernel)

/-- a proof whose pairing check fails is rejected by both entry points, whatever the rest -/
theorem C02_invalid_proof_rejected {Pr : Type} (Z : Snark Pr) (h2f : List UInt8 → Nat) (root : Nat)
    (roots : List Nat) (pb : List UInt8) (v : ProofValues) (signal : List UInt8) (proof : Pr)
    (hpb : pb.length = 128) (hv : CanonV v) (hs : signal.length < 2 ^ 64) (hd : Z.decode pb = some proof)
    (hz : Z.verify proof (publicInputs v) = some false) (hr : ∀ r ∈ roots, r < P) :
    verifyRlnProof Z h2f root (prepareVerifyInput (pb ++ serializeProofValues v) signal) = .ok false ∧
    verifyWithRoots Z h2f (prepareVerifyInput (pb ++ serializeProofValues v) signal)
      (roots.map frToBytesLe).flatten = .ok false := by
  rw [Proto.verifyRln_exact Z h2f root pb v signal proof false hpb hv hs hd hz,
    Proto.verifyRoots_exact Z h2f roots pb v signal proof false hpb hv hs hd hz hr]
  simp

example := C02_invalid_proof_rejected C02.exZ C02.exH2f 3 [3] C02.exPb C02.exVbad C02.exSignal ()
  (by decide +kernel) (by unfold CanonV; decide +kernel) (by decide +kernel) (by decide +kernel) (by decide +kernel)
  (by decide +kernel)

end Zk
