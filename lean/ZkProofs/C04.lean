import ZkProofs.Lemmas.ProtoProofs
import ZkModel.Tree.Ideal
/-!
# C04 — the published proof values are the documented formulas

`proof_values_from_witness` returns `y = s + x·H(s,e,m)`, `nullifier = H(H(s,e,m))`, the root
recomputed from the rate commitment `H(H(s), limit)` along the path, and the inputs `x` and
`external_nullifier` unchanged (`specProofValues`), exactly when `message_id < user_message_limit`
and the path is at least as long as the index list; otherwise it is an error (range check) or the
out-of-bounds panic of `compute_tree_root` (open finding). The published root is the path fold of
the tree specification (C07).
-/
namespace Zk
open Zk.Codec Zk.Protocol Zk.Public Zk.Proto

def C04.exH : List Nat → Nat := fun l => l.foldl (fun acc v => 1000 * acc + v + 7) 1 % 1000003
def C04.exW : Witness := { identitySecret := 5, userMessageLimit := 10, messageId := 2,
                           pathElements := [11, 12], identityPathIndex := [0, 1], x := 21,
                           externalNullifier := 9 }

theorem C04_proof_values_spec : ∀ (H : List Nat → Nat) (w : Witness), w.messageId < w.userMessageLimit →
    w.identityPathIndex.length ≤ w.pathElements.length →
    proofValuesFromWitness H w = .ok (specProofValues H w) :=
  proofValues_spec

example := C04_proof_values_spec C04.exH C04.exW (by decide) (by decide)
example : proofValuesFromWitness C04.exH C04.exW =
    .ok { y := (5 + 21 * C04.exH [5, 9, 2]) % P, nullifier := C04.exH [C04.exH [5, 9, 2]],
          root := C04.exH [12, C04.exH [C04.exH [C04.exH [5], 10], 11]], x := 21, externalNullifier := 9 } := by
  decide

theorem C04_proof_values_reject : ∀ (H : List Nat → Nat) (w : Witness),
    (w.messageId ≥ w.userMessageLimit → proofValuesFromWitness H w = .err) ∧
    (w.messageId < w.userMessageLimit → w.identityPathIndex.length > w.pathElements.length →
      proofValuesFromWitness H w = .panic) :=
  proofValues_reject

example : proofValuesFromWitness C04.exH { C04.exW with messageId := 10 } = .err ∧
    proofValuesFromWitness C04.exH { C04.exW with pathElements := [11] } = .panic := by decide

/-- the published root is `Ideal.computeRoot` (the recomputation of C07) from the rate commitment
    along the (sibling, direction) pairs; a direction byte other than 0 counts as 1 on both sides.
    (Holds for any two lists: both sides stop at the shorter one.) -/
theorem C04_root_is_ideal_path_fold : ∀ (H : List Nat → Nat) (leaf : Nat) (path : List Nat) (idx : List UInt8),
    idx.length ≤ path.length →
    specRoot H leaf path idx =
      Tree.Ideal.computeRoot (fun a b => H [a, b]) leaf (path.zip (idx.map (·.toNat))) :=
  fun H leaf path idx _ => px_specRoot_zip H path idx leaf

example : (specProofValues C04.exH C04.exW).root =
    Tree.Ideal.computeRoot (fun a b => C04.exH [a, b]) (C04.exH [C04.exH [5], 10]) [(11, 0), (12, 1)] :=
  C04_root_is_ideal_path_fold C04.exH _ [11, 12] [0, 1] (by decide)

end Zk
