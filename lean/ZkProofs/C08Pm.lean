import ZkProofs.Lemmas.TreeRun
import ZkProofs.Lemmas.PmRun
import ZkProofs.Lemmas.PmProofs
/-!
# C08 on the persistent tree: the open finding C08-pm-batch as theorems

`PmTree::override_range` with a non-empty removal list goes through `remove_indices` /
`remove_indices_and_set_leaves` (`Pm.removeIndices`, `Pm.removeIndicesAndSetLeaves`), which do not
have the documented batch effect `Ideal.batch`. The statements below are kernel-checked evaluations
of the model at concrete requests (node type `Nat`, a toy two-to-one function, default leaf `0`,
association lists for the store and for the batch map, depth 4), and from them the negation of the
full-strength refinement statement for `Pm.overrideRange`.

* `C08_pm_batch_wrong_offset`: the written leaves land at the wrong positions, removed positions
  keep their value, an unrelated position is overwritten — the call returns `Ok`.
* `C08_pm_remove_indices_collateral`: removals only — the whole span between the smallest and the
  largest removal index is reset.
* `C08_pm_batch_panics`: a removal index above the written range — the call panics.
* `C08_pm_batch_refinement_fails`: `Pm.overrideRange` does not refine `Ideal.batch`.
-/
namespace Zk

open Tree

/-- a toy two-to-one function on `Nat` -/
def C08Pm.exH : Nat → Nat → Nat := fun a b => 1000 * a + b + 7
abbrev C08Pm.ExD := AList PmKey (PmVal Nat)
abbrev C08Pm.ExS := AList (Nat × Nat) Nat

/-- eight leaves `10 … 17` at positions `0 … 7` of a depth-4 tree -/
def C08Pm.pre : List (TreeOp Nat) := [.setRange 0 [10, 11, 12, 13, 14, 15, 16, 17]]

/-- the persistent tree after a history (depth 4) -/
abbrev C08Pm.pm (ops : List (TreeOp Nat)) : Tree.Pm Nat C08Pm.ExD :=
  Tree.Pm.run (D := C08Pm.ExD) C08Pm.ExS C08Pm.exH 0 4 ops
/-- the ideal tree after the same history -/
abbrev C08Pm.ideal (ops : List (TreeOp Nat)) : Tree.Ideal Nat := Tree.Ideal.run 0 4 ops

/-- the answers of `PmTree::get` at positions `0 … n-1` -/
def C08Pm.pmLeaves (n : Nat) (t : Tree.Pm Nat C08Pm.ExD) : List (Outcome Nat) :=
  (List.range n).map t.get
/-- the specification's leaves at positions `0 … n-1` -/
def C08Pm.idealLeaves (n : Nat) (s : Tree.Ideal Nat) : List Nat :=
  (List.range n).map (s.leaf 0)

theorem C08Pm.pre_covered : Tree.PmCovered C08Pm.pre := by
  intro op h
  simp only [C08Pm.pre, List.mem_cons, List.not_mem_nil, or_false] at h
  subst h
  trivial

/-- before the batch both sides hold `10 … 17` (and the persistent state refines the ideal one:
    `C08Pm.pre_rel`) -/
theorem C08Pm.pre_leaves :
    C08Pm.pmLeaves 10 (C08Pm.pm C08Pm.pre) = [10, 11, 12, 13, 14, 15, 16, 17, 0, 0].map .ok ∧
    C08Pm.idealLeaves 10 (C08Pm.ideal C08Pm.pre) = [10, 11, 12, 13, 14, 15, 16, 17, 0, 0] := by
  decide +kernel

theorem C08Pm.pre_rel :
    Tree.Pm.Rel C08Pm.exH 0 (C08Pm.pm C08Pm.pre) (C08Pm.ideal C08Pm.pre) :=
  Pm.run_rel C08Pm.ExS C08Pm.exH 0 4 (by decide) C08Pm.pre C08Pm.pre_covered

/-! ## `remove_indices_and_set_leaves`: wrong offset -/

/-- `override_range(5, [100, 101], [2, 3])` on the tree holding `10 … 17`.
    Documented effect: positions 2 and 3 reset, `100, 101` at positions 5 and 6.
    pmtree adapter: returns `Ok`; positions 2 and 3 keep `12, 13`; positions 5 and 6 are reset;
    position 7 receives the old leaf 4; `100, 101` land at positions 8 and 9. -/
theorem C08_pm_batch_wrong_offset :
    (Tree.Pm.applyOp C08Pm.ExS C08Pm.exH 0 (C08Pm.pm C08Pm.pre) (.batch 5 [100, 101] [2, 3])).2 = .ok () ∧
    (Tree.Ideal.batch 0 (C08Pm.ideal C08Pm.pre) 5 [100, 101] [2, 3]).isOk = true ∧
    C08Pm.pmLeaves 10 (C08Pm.pm (C08Pm.pre ++ [.batch 5 [100, 101] [2, 3]]))
      = [10, 11, 12, 13, 14, 0, 0, 14, 100, 101].map .ok ∧
    C08Pm.idealLeaves 10 (C08Pm.ideal (C08Pm.pre ++ [.batch 5 [100, 101] [2, 3]]))
      = [10, 11, 0, 0, 14, 100, 101, 17, 0, 0] ∧
    (C08Pm.pm (C08Pm.pre ++ [.batch 5 [100, 101] [2, 3]])).get 2 = .ok 12 ∧
    (C08Pm.ideal (C08Pm.pre ++ [.batch 5 [100, 101] [2, 3]])).leaf 0 2 = 0 := by
  decide +kernel

/-- the leaves of the persistent tree are not the specification's after that history -/
theorem C08_pm_batch_wrong_offset_leaves :
    ¬ (∀ i, i < 16 → (C08Pm.pm (C08Pm.pre ++ [.batch 5 [100, 101] [2, 3]])).get i =
        .ok ((C08Pm.ideal (C08Pm.pre ++ [.batch 5 [100, 101] [2, 3]])).leaf 0 i)) := by
  intro h
  have h2 := h 2 (by decide)
  rw [C08_pm_batch_wrong_offset.2.2.2.2.1, C08_pm_batch_wrong_offset.2.2.2.2.2] at h2
  exact absurd h2 (by decide)

/-- … nor is its root (the toy function separates the two leaf vectors) -/
theorem C08_pm_batch_wrong_offset_root :
    (C08Pm.pm (C08Pm.pre ++ [.batch 5 [100, 101] [2, 3]])).root ≠
      (C08Pm.ideal (C08Pm.pre ++ [.batch 5 [100, 101] [2, 3]])).root C08Pm.exH 0 := by
  decide +kernel

/-! ## `remove_indices`: the whole span is reset -/

/-- `override_range(0, [], [2, 5])`: the documented effect resets positions 2 and 5; the adapter
    resets positions 2, 3, 4, 5 (and returns `Ok`). -/
theorem C08_pm_remove_indices_collateral :
    (Tree.Pm.applyOp C08Pm.ExS C08Pm.exH 0 (C08Pm.pm C08Pm.pre) (.batch 0 [] [2, 5])).2 = .ok () ∧
    (Tree.Ideal.batch 0 (C08Pm.ideal C08Pm.pre) 0 [] [2, 5]).isOk = true ∧
    C08Pm.pmLeaves 10 (C08Pm.pm (C08Pm.pre ++ [.batch 0 [] [2, 5]]))
      = [10, 11, 0, 0, 0, 0, 16, 17, 0, 0].map .ok ∧
    C08Pm.idealLeaves 10 (C08Pm.ideal (C08Pm.pre ++ [.batch 0 [] [2, 5]]))
      = [10, 11, 0, 13, 14, 0, 16, 17, 0, 0] ∧
    (C08Pm.pm (C08Pm.pre ++ [.batch 0 [] [2, 5]])).get 3 = .ok 0 ∧
    (C08Pm.pm (C08Pm.pre ++ [.batch 0 [] [2, 5]])).get 4 = .ok 0 ∧
    (C08Pm.ideal (C08Pm.pre ++ [.batch 0 [] [2, 5]])).leaf 0 3 = 13 ∧
    (C08Pm.ideal (C08Pm.pre ++ [.batch 0 [] [2, 5]])).leaf 0 4 = 14 := by
  decide +kernel

theorem C08_pm_remove_indices_collateral_leaves :
    ¬ (∀ i, i < 16 → (C08Pm.pm (C08Pm.pre ++ [.batch 0 [] [2, 5]])).get i =
        .ok ((C08Pm.ideal (C08Pm.pre ++ [.batch 0 [] [2, 5]])).leaf 0 i)) := by
  intro h
  have h3 := h 3 (by decide)
  rw [C08_pm_remove_indices_collateral.2.2.2.2.1, C08_pm_remove_indices_collateral.2.2.2.2.2.2.1] at h3
  exact absurd h3 (by decide)

/-- the empty-leaf lists differ as well: the adapter clears the flags of the whole span -/
theorem C08_pm_remove_indices_collateral_empties :
    (C08Pm.pm (C08Pm.pre ++ [.batch 0 [] [2, 5]])).emptyIdx = [2, 3, 4, 5] ∧
    (C08Pm.ideal (C08Pm.pre ++ [.batch 0 [] [2, 5]])).emptyIdx = [2, 5] := by
  decide +kernel

/-! ## a removal index above the written range: panic -/

/-- `override_range(0, [100, 101], [5])`: `vec![default; max_index - min_index]` with
    `max_index = 2 < min_index = 5` — the adapter panics; the specification accepts the request
    (reset position 5, write positions 0 and 1). -/
theorem C08_pm_batch_panics :
    (Tree.Pm.applyOp C08Pm.ExS C08Pm.exH 0 (C08Pm.pm C08Pm.pre) (.batch 0 [100, 101] [5])).2 = .panic ∧
    (Tree.Ideal.batch 0 (C08Pm.ideal C08Pm.pre) 0 [100, 101] [5]).isOk = true ∧
    C08Pm.idealLeaves 10 (C08Pm.ideal (C08Pm.pre ++ [.batch 0 [100, 101] [5]]))
      = [100, 101, 12, 13, 14, 0, 16, 17, 0, 0] := by
  decide +kernel

/-! ## the full C08 statement is false for the persistent backend -/

/-- the refinement statement for `Pm.overrideRange` against `Ideal.batch`, at the concrete store,
    batch map and hash of this file -/
def C08Pm.BatchRefines : Prop :=
  ∀ (t : Tree.Pm Nat C08Pm.ExD) (s : Tree.Ideal Nat) (start : Nat) (vs : List Nat) (rem : List Nat),
    Tree.Pm.Rel C08Pm.exH 0 t s →
    Tree.PmRefines C08Pm.exH 0 t s (Tree.Pm.overrideRange C08Pm.ExS C08Pm.exH 0 start vs rem t)
      (Tree.Ideal.batch 0 s start vs rem)

/-- what the refinement statement says about one call on related states (all parameters abstract):
    no panic, and a position below the capacity reads as the specification's leaf afterwards
    (`PmRefines.keep`, `Pm.obs_eq`) -/
theorem C08Pm.of_batchRefines (hall : C08Pm.BatchRefines)
    (t : Tree.Pm Nat C08Pm.ExD) (s : Tree.Ideal Nat) (start : Nat) (vs : List Nat) (rem : List Nat)
    (hrel : Tree.Pm.Rel C08Pm.exH 0 t s) :
    (Tree.Pm.overrideRange C08Pm.ExS C08Pm.exH 0 start vs rem t).2 ≠ .panic ∧
    ∀ i, i < 2 ^ (Tree.keepOk s (Tree.Ideal.batch 0 s start vs rem)).depth →
      (Tree.Pm.overrideRange C08Pm.ExS C08Pm.exH 0 start vs rem t).1.get i =
        .ok ((Tree.keepOk s (Tree.Ideal.batch 0 s start vs rem)).leaf 0 i) := by
  have h := (hall t s start vs rem hrel).keep
  refine ⟨h.2.2, fun i hi => ?_⟩
  have hget := (Pm.obs_eq C08Pm.ExD C08Pm.exH 0 _ _ h.1).2.2.1 i
  rw [if_pos hi] at hget
  exact hget

/-- the witness of `C08_pm_batch_wrong_offset` in the shape of one call on the state after
    `C08Pm.pre` (the run of the extended history is this state by definition of `Pm.run`) -/
theorem C08Pm.wrong_offset_step :
    (Tree.Pm.overrideRange C08Pm.ExS C08Pm.exH 0 5 [100, 101] [2, 3] (C08Pm.pm C08Pm.pre)).1.get 2 = .ok 12 ∧
    (Tree.keepOk (C08Pm.ideal C08Pm.pre)
      (Tree.Ideal.batch 0 (C08Pm.ideal C08Pm.pre) 5 [100, 101] [2, 3])).leaf 0 2 = 0 ∧
    2 < 2 ^ (Tree.keepOk (C08Pm.ideal C08Pm.pre)
      (Tree.Ideal.batch 0 (C08Pm.ideal C08Pm.pre) 5 [100, 101] [2, 3])).depth := by
  decide +kernel

/-- `Pm.overrideRange` does not refine `Ideal.batch`: the state before the call refines the ideal
    one (`Pm.run_rel`), a refining result would have the ideal leaves (`Pm.obs_eq`), but position 2
    still holds `12` where the specification has the default leaf. -/
theorem C08_pm_batch_refinement_fails :
    ¬ (∀ (t : Tree.Pm Nat C08Pm.ExD) (s : Tree.Ideal Nat) (start : Nat) (vs : List Nat) (rem : List Nat),
        Tree.Pm.Rel C08Pm.exH 0 t s →
        Tree.PmRefines C08Pm.exH 0 t s (Tree.Pm.overrideRange C08Pm.ExS C08Pm.exH 0 start vs rem t)
          (Tree.Ideal.batch 0 s start vs rem)) := by
  intro hall
  have hget := (C08Pm.of_batchRefines hall _ _ 5 [100, 101] [2, 3] C08Pm.pre_rel).2 2
    C08Pm.wrong_offset_step.2.2
  rw [C08Pm.wrong_offset_step.1, C08Pm.wrong_offset_step.2.1] at hget
  exact absurd hget (by decide)

/-- the same conclusion from the panic: a panicking call refines nothing -/
theorem C08_pm_batch_refinement_fails_panic : ¬ C08Pm.BatchRefines := fun hall =>
  (C08Pm.of_batchRefines hall _ _ 0 [100, 101] [5] C08Pm.pre_rel).1 C08_pm_batch_panics.1

/-- and on histories: dropping `PmCovered` from `C06_pm_observables` makes it false -/
theorem C08_pm_history_statement_fails :
    ¬ (∀ (ops : List (TreeOp Nat)) (i : Nat), i < 2 ^ 4 →
        (C08Pm.pm ops).get i = .ok ((C08Pm.ideal ops).leaf 0 i)) := by
  intro h
  exact C08_pm_batch_wrong_offset_leaves (fun i hi => h _ i hi)

end Zk
